#!/bin/bash
# Unchanged-tree guard: the quick tier of every claimed property under several VERIF_SEED values.
# Every run must exit 0 (a KNOWN-FINDING line is fine, a VIOLATION line is not).
# usage: tools/seeds.sh "<seeds>"
cd "$(dirname "$0")/.." || exit 2
bad=0
for s in ${1:-1 2 3 4 5}; do
  for p in c08 c09 c10; do
    out=$(VERIF_SEED=$s timeout 3000 ./check $p --tier quick --no-evidence 2>&1); rc=$?
    echo "seed=$s $p exit=$rc $(echo "$out" | grep -c '^VIOLATION') violation lines"
    if [ $rc -ne 0 ]; then bad=1; echo "$out" | tail -15; fi
  done
done
exit $bad
