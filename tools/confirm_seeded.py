#!/venv/bin/python
"""Confirm a seeded change (seeded/<id>/) independently of whoever wrote it:

1. in a scratch git worktree of /repo HEAD (under /tmp, removed afterwards): the demo passes
   without the change; with patch.diff applied the pinned test suite still passes (42) and the
   demo fails;
2. apply the patch to /repo itself, run the property's quick check (no evidence written),
   undo the patch straight afterwards.

Writes what was observed into seeded/<id>/meta.json.  Usage: tools/confirm_seeded.py <id> [...]
"""
import json
import os
import subprocess
import sys
import tempfile

VERIF = os.path.dirname(os.path.dirname(os.path.abspath(__file__)))
PY = "/venv/bin/python"


def sh(cmd, cwd=None, env=None, timeout=3600):
    return subprocess.run(cmd, cwd=cwd, env=env, capture_output=True, text=True, timeout=timeout)


def confirm(sid):
    d = os.path.join(VERIF, "seeded", sid)
    meta = json.load(open(os.path.join(d, "meta.json")))
    patch = os.path.join(d, "patch.diff")
    wt = tempfile.mkdtemp(prefix="seeded-wt-")
    os.rmdir(wt)
    obs = {}
    try:
        assert sh(["git", "-C", "/repo", "worktree", "add", "-q", wt, "HEAD"]).returncode == 0
        env = dict(os.environ, PYTHONPYCACHEPREFIX=os.path.join(wt, ".pyc"))
        sh(["cp", os.path.join(d, "demo.py"), wt])
        r = sh([PY, "demo.py"], cwd=wt, env=env)
        obs["demo_passes_without"] = r.returncode == 0
        assert sh(["git", "apply", patch], cwd=wt).returncode == 0
        r = sh([PY, "-m", "pytest", "-q", "-p", "no:cacheprovider", "--timeout=900"], cwd=wt, env=env)
        last = [l for l in r.stdout.splitlines() if " passed" in l or " failed" in l]
        obs["tests_with_change"] = last[-1].strip() if last else r.stdout[-200:]
        obs["tests_pass_with_change"] = bool(last) and "42 passed" in last[-1] and "failed" not in last[-1]
        r = sh([PY, "demo.py"], cwd=wt, env=env)
        obs["demo_fails_with_change"] = r.returncode != 0
        obs["demo_failure"] = (r.stderr.strip().splitlines() or [""])[-1][:300]
    finally:
        sh(["git", "-C", "/repo", "worktree", "remove", "--force", wt])
        sh(["git", "-C", "/repo", "worktree", "prune"])
    # the real thing: patch /repo, run the check, undo
    prop = meta["property"]
    assert sh(["git", "-C", "/repo", "status", "--porcelain", "--untracked-files=no"]).stdout.strip() == "", \
        "/repo has local modifications"
    assert sh(["git", "-C", "/repo", "apply", patch]).returncode == 0
    try:
        r = sh([os.path.join(VERIF, "check"), prop.lower(), "--tier", "quick", "--no-evidence"], cwd=VERIF)
    finally:
        sh(["git", "-C", "/repo", "checkout", "--", "."])
    viol = [l for l in r.stdout.splitlines() if l.startswith("VIOLATION")]
    classes = [l.strip()[:400] for l in r.stdout.splitlines() if l.strip().startswith("class ")]
    obs["check_cmd"] = "git -C /repo apply seeded/%s/patch.diff && ./check %s --tier quick --no-evidence; git -C /repo checkout -- ." % (sid, prop.lower())
    obs["check_exit"] = r.returncode
    obs["check_violations"] = len(viol)
    obs["check_classes"] = classes
    obs["caught"] = r.returncode == 1 and bool(viol)
    meta["confirmed"] = obs
    json.dump(meta, open(os.path.join(d, "meta.json"), "w"), indent=1)
    print("%-36s tests_ok=%s demo_without=%s demo_with_fails=%s check_exit=%s violations=%d" % (
        sid, obs.get("tests_pass_with_change"), obs.get("demo_passes_without"),
        obs.get("demo_fails_with_change"), r.returncode, len(viol)), flush=True)
    return obs["caught"]


if __name__ == "__main__":
    ids = sys.argv[1:] or sorted(os.listdir(os.path.join(VERIF, "seeded")))
    ok = all([confirm(s) for s in ids])
    sys.exit(0 if ok else 1)
