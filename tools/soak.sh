#!/bin/bash
# Soak: thorough tier of every property under several seeds; any exit code other than 0 is printed.
# Usage: tools/soak.sh "<seeds>" <budget_s>     (run from /verif or a snapshot of it)
cd "$(dirname "$0")/.." || exit 2
seeds=${1:-"11 12 13"}
budget=${2:-600}
rc=0
for s in $seeds; do
  for p in c09 c10 c08; do
    out=$(VERIF_SEED=$s VERIF_BUDGET_S=$budget ./check $p --tier thorough --no-evidence 2>&1)
    code=$?
    echo "seed=$s $p exit=$code $(echo "$out" | grep -E '^(C0|C1)' | head -1)"
    if [ $code -ne 0 ]; then echo "$out" | tail -15; rc=1; fi
  done
done
exit $rc
