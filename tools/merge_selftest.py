#!/venv/bin/python
"""The sensitivity / specificity self-tests were run as several parallel `vp run`s over disjoint
parts of the patch list (the serial minimisation phases leave most cores idle).  This collects
their log lines into evidence/selftest-mutants.json and evidence/selftest-benign.json.
Usage: tools/merge_selftest.py <commit> <log> [<log> ...]"""
import json
import os
import re
import sys

VERIF = os.path.dirname(os.path.dirname(os.path.abspath(__file__)))
MUT = re.compile(r"^(C\d\d-\S+)\s+exit=(\d+) violations=(\d+) tests=(.*?) \((\d+)s\)\s*$")
BEN = re.compile(r"^(\S+)\s+tests=(.*?) checks=(\{.*\})\s*$")


def main(argv):
    commit, logs = argv[0], argv[1:]
    mutants, benign = {}, {}
    for path in logs:
        for line in open(path, errors="replace"):
            m = MUT.match(line)
            if m:
                name = m.group(1)
                prop = name.split("-")[0]
                mutants.setdefault(name, {"mutant": name, "property": prop, "exit": int(m.group(2)),
                                          "violations": int(m.group(3)), "tests": m.group(4),
                                          "wall_s": int(m.group(5)), "log": os.path.basename(os.path.dirname(path))})
                continue
            b = BEN.match(line)
            if b:
                benign.setdefault(b.group(1), {"refactor": b.group(1), "tests": b.group(2),
                                               "checks": json.loads(b.group(3).replace("'", '"'))})
    res = sorted(mutants.values(), key=lambda r: r["mutant"])
    caught = sum(1 for r in res if r["exit"] == 1 and r["violations"])
    json.dump({"commit": commit, "caught": caught, "total": len(res), "results": res,
               "note": "merged from parallel runs over disjoint parts of the patch list"},
              open(os.path.join(VERIF, "evidence", "selftest-mutants.json"), "w"), indent=1)
    alarms = sum(1 for r in benign.values() for v in r["checks"].values() if v != 0)
    if benign:
        json.dump({"commit": commit, "alarms": alarms, "results": sorted(benign.values(), key=lambda r: r["refactor"])},
                  open(os.path.join(VERIF, "evidence", "selftest-benign.json"), "w"), indent=1)
    print("mutants: %d of %d caught; benign: %d alarms on %d refactorings" % (caught, len(res), alarms, len(benign)))
    return 0


if __name__ == "__main__":
    sys.exit(main(sys.argv[1:]))
