"""The node: a real interpreter running the real periodictable from VERIF_REPO.

Everything in this file runs *inside* a node process (forked from a worker, or
a fresh subprocess).  It imports periodictable; the scheduler side never does.

Protocol: length-prefixed pickles on a pair of pipes.  Commands:

    ("batch", [event, ...], want_abstract)  -> [(outcome, abstract|None), ...]
    ("digest", table, groups, ref_hashes)   -> {group: (hash, detail|None)}
    ("abstract",)                            -> abstract loader state
    ("vocab",)                               -> tree-dependent vocabulary
    ("quit",)
"""
import contextlib
import copy
import faulthandler
import importlib
import inspect
import io
import os
import pickle
import struct
import sys

from . import canon as C
from .canon import canon

from .events import LAZY_GROUPS

GROUP_ORDER = ["base", "mass", "density", "covalent_radius", "crystal_structure", "neutron",
               "activation", "xray", "emission", "magnetic_ff", "routes", "calc", "calc_public"]

INIT_ENTRIES = {
    "mass": ("periodictable.mass", "init"),
    "density": ("periodictable.density", "init"),
    "neutron": ("periodictable.nsf", "init"),
    "xray": ("periodictable.xsf", "init"),
    "emission": ("periodictable.xsf", "init_spectral_lines"),
    "covalent_radius": ("periodictable.covalent_radius", "init"),
    "crystal_structure": ("periodictable.crystal_structure", "init"),
    "magnetic_ff": ("periodictable.magnetic_ff", "init"),
    "activation": ("periodictable.activation", "init"),
}

XRAY_ROUTE_CORE = [(26, 0, 2), (26, 56, 2), (26, 56, 0), (28, 58, 3), (64, 0, 3), (92, 0, 0), (92, 238, 4)]

CALC_BATTERY = [
    ["nscat", "H2O", 1.0, 4.75],
    ["nscat", "D2O", 1.1, 1.798],
    ["nscat", "Gd2O3", 7.4, 1.0],
    ["nscat", "CaCO3+6H[2]2O", 2.0, 6.0],
    ["nscat", "Ni[58]{2+}O", 6.67, 5.0],
    ["nsld", "SiO2", 2.2, 4.5],
    ["nsld", "Lu2O3", 9.4, 0.5],
    ["xsld", "Fe2O3", 5.24, 8.04],
    ["xsld", "Ni[58]{3+}Cl3", 3.5, 17.44],
    ["xsld", "Au", None, 8.04],
    ["volume", "NaCl"],
    ["volume", "Fe2O3"],
    ["activation", "Co30Fe70", 10.0, 1e8, 10.0, [0, 1, 24, 360]],
    ["activation", "Au[197]", 1.0, 1e5, 1.0, [0, 24]],
    ["d2o_match", "C3H4H[1]NO@1.29n"],
    ["fasta_const"],
    ["refraction", "SiO2", 2.2, 8.04],
    ["composite", "C3H4NO", "D2O", 4.75],
    ["composite", "Gd2O3", "H2O", [0.5, 1.0, 4.0]],
    ["d2o_sld", "C3H4H[1]NO@1.29n"],
    ["fasta_seq", "aa", "AVGKLR"],
    ["fasta_seq", "dna", "ACGT"],
    ["formula_methods", "Ni[58]{2+}SO4", 3.7],
    ["iadd", "C2H6O", "hill"],
    ["iadd", "C2H6O", "replace"],
    ["show_table", "Au2Co", 2.0],
    ["emission_table"],
    ["list", ["symbol", "K_alpha"], "%s %.4f"],
    ["list", ["symbol", "covalent_radius"], "%s %.2f"],
    ["mff", [26, 0, 2], 2, [0.0, 0.1, 0.2]],
    ["f0", [26, 0, 3], [0.0, 1.0]],
]


class Node(object):
    def __init__(self, repo):
        self.repo = repo
        sys.path.insert(0, repo)
        assert "periodictable" not in sys.modules, "zygote imported periodictable"
        import periodictable
        here = os.path.realpath(os.path.dirname(periodictable.__file__))
        want = os.path.realpath(os.path.join(repo, "periodictable"))
        assert here == want, "periodictable imported from %s, not %s" % (here, want)
        self.pt = periodictable
        self.core = periodictable.core
        self.tables = {"public": periodictable.elements}
        self.reg = []          # strong refs: index is identity
        self.reg_ids = {}
        self.msgs = {}
        self.objs = {}         # named scratch objects created by events (formulas, ...)

    # ---------------------------------------------------------------- helpers
    def _registry(self):
        """name -> table for every table this node knows about.  The node created every private
        table itself, so it does not depend on how the library registers them: tables whose handle
        the 'caller' dropped are followed through a weak reference."""
        reg = dict(self.tables)
        for name, ref in getattr(self, "dropped", {}).items():
            t = ref()
            if t is not None and name not in reg:
                reg[name] = t
        return reg

    def table(self, name):
        t = self._registry().get(name)
        if t is None:
            raise LookupError("no table " + name)
        return t

    def atom(self, tbl, ref):
        Z, A, q = ref
        a = self.table(tbl)[Z]
        if A:
            a = a[A]
        if q:
            a = a.ion[q]
        return a

    def ident(self, obj):
        """registry index of obj (identity)."""
        i = self.reg_ids.get(id(obj))
        if i is None or self.reg[i] is not obj:
            i = len(self.reg)
            self.reg.append(obj)
            self.reg_ids[id(obj)] = i
        return i

    def module(self, name):
        return importlib.import_module(name)

    # ------------------------------------------------------------ abstract state
    def abstract(self):
        core = self.core
        out = {}
        names = []
        for g in LAZY_GROUPS.values():
            names += g
        for cls in (core.Element, core.Isotope, core.Ion):
            row = []
            for n in names:
                row.append(_kind(cls.__dict__.get(n, _ABSENT)))
            out[cls.__name__] = "".join(row)
        props = {}
        for tname, t in sorted(self._registry().items()):
            props[tname] = sorted(set(getattr(t, "properties", ())))
        out["props"] = props
        out["mods"] = sorted(m for m in sys.modules
                             if m.startswith("periodictable.") and sys.modules[m] is not None)
        return out

    # ------------------------------------------------------------------ events
    def run_event(self, ev):
        kind = ev[0]
        fn = getattr(self, "ev_" + kind)
        buf = io.StringIO()
        try:
            with contextlib.redirect_stdout(buf):
                val = fn(*ev[1:])
            out = val
        except BaseException as e:  # noqa: BLE001 - the exception type *is* the outcome
            if isinstance(e, (KeyboardInterrupt, SystemExit, MemoryError)):
                raise
            out = ["E", type(e).__name__]
        return out

    # reads ------------------------------------------------------------------
    def ev_read(self, tbl, ref, name, means):
        a = self.atom(tbl, ref)
        if means == "attr":
            return canon(getattr(a, name))
        if means == "hasattr":
            return hasattr(a, name)
        if means == "getdefault":
            return canon(getattr(a, name, "<default>"))
        raise ValueError(means)

    def ev_probe(self, tbl, ref, how):
        a = self.atom(tbl, ref)
        if how == "getmembers":
            inspect.getmembers(a)
            return "ok"
        if how == "dirsweep":
            for n in dir(a):
                getattr(a, n, None)
            return "ok"
        if how == "copy":
            return copy.copy(a) is a
        if how == "deepcopy":
            return copy.deepcopy(a) is a
        if how.startswith("pickle"):
            proto = int(how.split(":")[1])
            return pickle.loads(pickle.dumps(a, proto)) is a
        if how == "vars":
            vars(a)
            return "ok"
        if how == "str":
            return [str(a), repr(a)]
        raise ValueError(how)

    def ev_import(self, modname):
        if modname == "*":
            ns = {}
            exec("from periodictable import *", ns)
            return "ok"
        self.module(modname)
        return "ok"

    def ev_init(self, tbl, group, reload):
        modname, entry = INIT_ENTRIES[group]
        fn = getattr(self.module(modname), entry)
        t = self.table(tbl)
        if entry == "init_spectral_lines":
            fn(t)
        elif reload:
            fn(t, reload=True)
        else:
            fn(t)
        return "ok"

    def ev_ext(self, which):
        p = os.path.join(self.repo, "doc", "sphinx")
        if p not in sys.path:
            sys.path.append(p)
        if which == "discoverer":
            self.module("discoverer")
            return "ok"
        if which == "discoverer_read":
            self.module("discoverer")
            return canon(self.pt.elements.Fe.discoverer)
        if which == "shelltable":
            self.module("shelltable")
            return "ok"
        raise ValueError(which)

    # calculators --------------------------------------------------------------
    def _formula(self, tbl, s, density=None):
        kw = {}
        if tbl != "public":
            kw["table"] = self.table(tbl)
        if density is not None:
            kw["density"] = density
        return self.pt.formula(s, **kw)

    @staticmethod
    def _in_fork(fn):
        r, w = os.pipe()
        pid = os.fork()
        if pid == 0:
            try:
                os.close(r)
                try:
                    res = fn()
                except Exception as e:  # noqa: BLE001
                    res = ["E", type(e).__name__]
                send(w, res)
            finally:
                os._exit(0)
        os.close(w)
        try:
            res = recv(r)
        except EOFError:
            res = ["E", "ForkDied"]
        os.close(r)
        os.waitpid(pid, 0)
        return res

    def _new_isotope(self, t, Z, A):
        iso = t[Z].add_isotope(A)
        keys = {}
        g = self._get
        for name in ("neutron", "nuclear_spin", "neutron_activation", "xray", "K_alpha", "covalent_radius",
                     "crystal_structure", "magnetic_ff", "density", "isotope", "number", "symbol"):
            g(keys, name, lambda name=name: getattr(iso, name))
        g(keys, "ion.neutron", lambda: iso.ion[1].neutron)
        g(keys, "neutron.sld", lambda: iso.neutron.sld())
        g(keys, "same", lambda: t[Z][A] is iso and A in t[Z].isotopes)
        return keys

    def ev_calc(self, tbl, which, *a):
        pt = self.pt
        t = self.table(tbl)
        opts = a[-1] if a and isinstance(a[-1], dict) else {}
        if opts:
            a = a[:-1]
        if which in ("nscat", "nsld"):
            s, density, wl = a
            f = s if opts.get("str") else self._formula(tbl, s)
            kw = {"natural_density" if opts.get("natural") else "density": density}
            if opts.get("str") and tbl != "public":
                kw["table"] = t
            if opts.get("vector"):
                import numpy as np
                wl = np.array([wl, 2 * wl, 0.25 * wl])
            if opts.get("energy"):
                nsf = self.module("periodictable.nsf")
                kw["energy"] = nsf.neutron_energy(wl)
            else:
                kw["wavelength"] = wl
            fn = pt.neutron_scattering if which == "nscat" else pt.neutron_sld
            return canon(fn(f, **kw))
        if which == "xsld":
            s, density, en = a
            f = s if opts.get("str") and tbl == "public" else self._formula(tbl, s)
            kw = {"natural_density" if opts.get("natural") else "density": density}
            if isinstance(en, list):
                import numpy as np
                en = np.array(en)
            if opts.get("wavelength"):
                xsf = self.module("periodictable.xsf")
                kw["wavelength"] = xsf.xray_wavelength(en)
            else:
                kw["energy"] = en
            return canon(pt.xray_sld(f, **kw))
        if which == "volume":
            (s,) = a
            if "packing" in opts:
                return canon(self._formula(tbl, s).volume(packing_factor=opts["packing"]))
            return canon(self._formula(tbl, s).volume())
        if which == "activation":
            s, mass, fluence, exposure, rest = a[:5]
            act = self.module("periodictable.activation")
            env = act.ActivationEnvironment(fluence=fluence, Cd_ratio=opts.get("cd", 70),
                                            fast_ratio=opts.get("fast", 50), location="BT-2")
            sample = act.Sample(self._formula(tbl, s), mass)
            kw = {}
            if len(a) > 5 and a[5] == "iaea":
                kw["abundance"] = act.IAEA1987_isotopic_abundance
            sample.calculate_activation(env, exposure=exposure, rest_times=tuple(rest), **kw)
            rows = []
            for k, v in sample.activity.items():
                rows.append([canon(k), canon(v)])
            rows.sort(key=C.dumps)
            try:
                dt = canon(sample.decay_time(5e-4))
            except Exception as e:  # noqa: BLE001
                dt = ["E", type(e).__name__]
            return [rows, dt]
        if which == "d2o_match":
            (s,) = a
            nsf = self.module("periodictable.nsf")
            kw = {} if tbl == "public" else {"table": t}
            for k in ("wavelength", "energy"):
                if k in opts:
                    kw[k] = opts[k]
            return canon(nsf.D2O_match(s if opts.get("str") else self._formula(tbl, s), **kw))
        if which == "fasta_const":
            fasta = self.module("periodictable.fasta")
            return canon([fasta.H2O_SLD, fasta.D2O_SLD])
        if which == "emission_table":
            xsf = self.module("periodictable.xsf")
            return self._printed(xsf.emission_table, table=t)
        if which == "xsld_table":
            xsf = self.module("periodictable.xsf")
            return self._printed(xsf.sld_table, table=t)
        if which == "nsld_table":
            nsf = self.module("periodictable.nsf")
            return self._printed(nsf.sld_table, table=t)
        if which == "nsf_tables":
            nsf = self.module("periodictable.nsf")
            (name,) = a
            return self._printed(getattr(nsf, name), table=t)
        if which == "list":
            props, fmt = a
            return self._printed(t.list, *props, format=fmt)
        if which == "mff":
            ref, charge, Q = a[:3]
            at = self.atom(tbl, ref)
            import numpy as np
            fn = a[3] if len(a) > 3 else "M_Q"
            return canon(getattr(at.magnetic_ff[charge], fn)(np.array(Q) if isinstance(Q, list) else Q))
        if which == "f0":
            ref, Q = a
            import numpy as np
            at = self.atom(tbl, ref)
            return canon(at.xray.f0(np.array(Q) if isinstance(Q, list) else Q))
        if which == "cromermann":
            # the module-level form-factor functions, called with a symbol (and perhaps a charge)
            sym, Q, charge = a
            import numpy as np
            cm = self.module("periodictable.cromermann")
            Q = np.array(Q) if isinstance(Q, list) else Q
            return canon([cm.fxrayatq(sym, Q, charge), cm.fxrayatstol(sym, Q / (4 * np.pi), charge)])
        if which == "mass":
            (s,) = a
            f = self._formula(tbl, s)
            return canon([f.mass, f.charge])
        if which == "refraction":
            s, density, en = a
            import numpy as np
            xsf = self.module("periodictable.xsf")
            f = self._formula(tbl, s)
            if isinstance(en, list):
                en = np.array(en)
            return canon([xsf.index_of_refraction(f, density=density, energy=en),
                          xsf.mirror_reflectivity(f, density=density, energy=en, angle=0.2)])
        if which == "composite":
            s1, s2, wl = a
            nsf = self.module("periodictable.nsf")
            import numpy as np
            calc = nsf.neutron_composite_sld([self._formula(tbl, s1), self._formula(tbl, s2)], wavelength=wl)
            return canon(calc(np.array([1.0, 2.0]), density=1.3))
        if which == "d2o_sld":
            (s,) = a
            nsf = self.module("periodictable.nsf")
            kw = {} if tbl == "public" else {"table": t}
            for k in ("wavelength", "energy"):
                if k in opts:
                    kw[k] = opts[k]
            return canon(nsf.D2O_sld(s if opts.get("str") else self._formula(tbl, s),
                                     volume_fraction=0.3, D2O_fraction=0.4, **kw))
        if which == "fasta_seq":
            kind, seq = a
            fasta = self.module("periodictable.fasta")
            m = fasta.Sequence("verif", seq, type=kind)
            return canon([m.sld, m.Dsld, m.mass, m.D2Omatch, str(m.formula), m.D2Osld(0.5, 0.5)])
        if which == "formula_methods":
            s, density = a
            f = self._formula(tbl, s, density)
            return canon([f.neutron_sld(wavelength=4.75), f.xray_sld(energy=8.04), f.natural_mass_ratio(),
                          f.molecular_mass, sorted(str(k) for k in f.mass_fraction)])
        if which == "iadd":
            # formula algebra on a formula the caller obtained from another one (Hill form, isotope
            # substitution, a copy, a biomolecule): += must not reach back into where it came from
            s, source = a
            if source == "hill":
                base = self._formula(tbl, s).hill
            elif source == "replace":
                base = self._formula(tbl, s).replace(t.H, t.D)
            elif source == "copy":
                base = pt.formula(self._formula(tbl, s).hill)
            elif source == "fasta":
                fasta = self.module("periodictable.fasta")
                base = pt.formula(fasta.Sequence("verif", "AVGK", type="aa").natural_formula)
            elif source == "lipid":
                fasta = self.module("periodictable.fasta")
                base = pt.formula(fasta.LIPIDS["DMPC"].natural_formula)
            else:
                raise ValueError(source)
            before = base.mass
            g = pt.formula(base)
            g += 3 * self._formula(tbl, "H2O")
            twice = 2 * g
            return canon([before, g.mass, twice.mass, base.mass, str(g)])
        if which == "new_isotope":
            # what a table serves for an isotope that is added only now (add_isotope is what the
            # loaders themselves use).  Evaluated in a throw-away fork of this interpreter: it is an
            # observation of the present loader state and must not become part of the history.
            Z, A = a
            return self._in_fork(lambda: self._new_isotope(t, Z, A))
        if which == "show_table":
            s, mass = a[:2]
            act = self.module("periodictable.activation")
            env = act.ActivationEnvironment(fluence=1e8, Cd_ratio=70, fast_ratio=50, location="BT-2")
            sample = act.Sample(self._formula(tbl, s), mass)
            source = act.NIST2001_isotopic_abundance if len(a) > 2 and a[2] == "nist" else act.IAEA1987_isotopic_abundance
            sample.calculate_activation(env, exposure=10, rest_times=(0, 1, 24), abundance=source)
            return self._printed(sample.show_table, cutoff=0.0)
        raise ValueError(which)

    def _printed(self, fn, *a, **kw):
        buf = io.StringIO()
        with contextlib.redirect_stdout(buf):
            fn(*a, **kw)
        s = buf.getvalue()
        return ["P", C._h(s.encode()), len(s)]

    # --------------------------------------------------------------- digest
    def digest(self, tbl, groups, ref=None, detail=False, seeded=None):
        t = self.table(tbl)
        res = {}
        for g in GROUP_ORDER:
            if g not in groups:
                continue
            keys = {}
            C.ALIAS = {} if tbl == "public" else {tbl: "public"}
            try:
                getattr(self, "dg_" + g)(tbl, t, keys)
            finally:
                C.ALIAS = {}
            blob = C.dumps(keys)
            h = C._h(blob.encode())
            if detail or (ref is not None and ref.get(g) != h):
                res[g] = (h, keys)
            else:
                res[g] = (h, None)
        return res

    @staticmethod
    def _get(keys, k, fn):
        try:
            keys[k] = canon(fn())
        except Exception as e:  # noqa: BLE001
            keys[k] = ["E", type(e).__name__]

    def dg_base(self, tbl, t, keys):
        """What a table serves as soon as it exists: the identifying attributes and the valid charges."""
        g = self._get
        for el in t:
            s = "Z%d" % el.number
            g(keys, s + ".symbol", lambda: el.symbol)
            g(keys, s + ".name", lambda: el.name)
            g(keys, s + ".ions", lambda: el.ions)
            g(keys, s + ".charge", lambda: el.charge)
        for a in ("D", "T"):
            g(keys, a, lambda: [getattr(t, a).symbol, getattr(t, a).name, getattr(t, a).isotope,
                                getattr(t, a).number, getattr(t, a).ions])

    def dg_mass(self, tbl, t, keys):
        g = self._get
        for el in t:
            s = el.symbol
            g(keys, s + ".mass", lambda: el.mass)
            g(keys, s + "._mass_unc", lambda: el._mass_unc)
            g(keys, s + ".isotopes", lambda: el.isotopes)
            for iso in el:
                k = "%s[%d]" % (s, iso.isotope)
                g(keys, k + ".mass", lambda: [iso.mass, iso._mass_unc])
                g(keys, k + ".abundance", lambda: [iso.abundance, iso._abundance_unc])
            ions = sorted(el.ions)
            for q in ions[:1] + ions[-1:]:
                g(keys, "%s{%d}.mass" % (s, q), lambda: el.ion[q].mass)
        for n in ("mass_units", "abundance_units"):
            g(keys, "Fe." + n, lambda: getattr(t.Fe, n))
            g(keys, "Fe[56]." + n, lambda: getattr(t.Fe[56], n))

    def dg_density(self, tbl, t, keys):
        g = self._get
        for el in t:
            s = el.symbol
            g(keys, s + ".density", lambda: el.density)
            g(keys, s + ".density_caveat", lambda: el.density_caveat)
            g(keys, s + ".number_density", lambda: el.number_density)
            g(keys, s + ".interatomic_distance", lambda: el.interatomic_distance)
            isos = sorted(el.isotopes)
            for A in isos[:1] + isos[-1:]:
                g(keys, "%s[%d].density" % (s, A), lambda: el[A].density)
        for n in ("density_units", "interatomic_distance_units", "number_density_units"):
            g(keys, "Fe." + n, lambda: getattr(t.Fe, n))
            g(keys, "Fe{2}." + n, lambda: getattr(t.Fe.ion[2], n))

    def dg_covalent_radius(self, tbl, t, keys):
        g = self._get
        for el in t:
            for n in LAZY_GROUPS["covalent_radius"]:
                g(keys, el.symbol + "." + n, lambda: getattr(el, n))
        g(keys, "Fe{2}.covalent_radius", lambda: t.Fe.ion[2].covalent_radius)

    def dg_crystal_structure(self, tbl, t, keys):
        g = self._get
        for el in t:
            g(keys, el.symbol + ".crystal_structure", lambda: el.crystal_structure)
        g(keys, "Fe{2}.crystal_structure", lambda: t.Fe.ion[2].crystal_structure)

    def dg_neutron(self, tbl, t, keys):
        g = self._get
        for el in t:
            s = el.symbol
            g(keys, s + ".neutron", lambda: el.neutron)
            for iso in el:
                k = "%s[%d]" % (s, iso.isotope)
                g(keys, k + ".neutron", lambda: iso.neutron)
                g(keys, k + ".nuclear_spin", lambda: iso.nuclear_spin)
        g(keys, "Fe{2}.neutron", lambda: t.Fe.ion[2].neutron)
        g(keys, "Ni[58]{2}.neutron", lambda: t.Ni[58].ion[2].neutron)
        g(keys, "H.sld", lambda: t.H.neutron.sld())
        g(keys, "D.sld", lambda: t.D.neutron.sld())
        g(keys, "Gd.scattering", lambda: t.Gd.neutron.scattering(wavelength=0.5))

    def dg_activation(self, tbl, t, keys):
        g = self._get
        for el in t:
            for iso in el:
                k = "%s[%d].neutron_activation" % (el.symbol, iso.isotope)
                g(keys, k, lambda: iso.neutron_activation)
        g(keys, "Co[59]{2}.neutron_activation", lambda: t.Co[59].ion[2].neutron_activation)

    def dg_xray(self, tbl, t, keys):
        g = self._get
        for el in t:
            g(keys, el.symbol + ".xray", lambda: el.xray)
        for Z, A, q in XRAY_ROUTE_CORE:
            g(keys, "%d/%d/%d.xray" % (Z, A, q), lambda: self.atom(tbl, (Z, A, q)).xray)

    def dg_emission(self, tbl, t, keys):
        g = self._get
        for el in t:
            for n in LAZY_GROUPS["emission"]:
                g(keys, el.symbol + "." + n, lambda: getattr(el, n))
        g(keys, "Cu{2}.K_alpha", lambda: t.Cu.ion[2].K_alpha)

    def dg_magnetic_ff(self, tbl, t, keys):
        g = self._get
        for el in t:
            g(keys, el.symbol + ".magnetic_ff", lambda: el.magnetic_ff)
        g(keys, "Fe{2}.magnetic_ff", lambda: t.Fe.ion[2].magnetic_ff)

    def dg_routes(self, tbl, t, keys):
        """Isotope and isotope-ion routes to the element-level groups (need the isotopes of mass.init)."""
        g = self._get
        for Z, A, q in ((26, 56, 0), (26, 56, 2), (29, 63, 0), (29, 63, 2), (1, 2, 0), (6, 13, 0)):
            a = lambda: self.atom(tbl, (Z, A, q))
            for n in ("covalent_radius", "covalent_radius_units", "crystal_structure", "K_alpha",
                      "K_alpha_units", "magnetic_ff"):
                g(keys, "%d/%d/%d.%s" % (Z, A, q, n), lambda: getattr(a(), n))

    def dg_calc_public(self, tbl, t, keys):
        """Calculators that by design only know the public table (fasta); never claimed for a private one."""
        self._battery(tbl, keys, [ev for ev in CALC_BATTERY if ev[0].startswith("fasta")])

    def dg_calc(self, tbl, t, keys):
        self._battery(tbl, keys, [ev for ev in CALC_BATTERY if not ev[0].startswith("fasta")])

    def _battery(self, tbl, keys, battery):
        for ev in battery:
            k = C.dumps(ev)
            try:
                buf = io.StringIO()
                with contextlib.redirect_stdout(buf):
                    keys[k] = self.ev_calc(tbl, *ev)
            except Exception as e:  # noqa: BLE001
                keys[k] = ["E", type(e).__name__]

    # ------------------------------------------------------------------ vocab
    def vocab(self):
        t = self.tables["public"]
        els = {}
        for el in t:
            els[el.number] = {"symbol": el.symbol, "name": el.name,
                              "isotopes": list(el.isotopes), "ions": list(el.ions)}
        return {"elements": els, "lazy": LAZY_GROUPS, "version": self.pt.__version__}


_ABSENT = object()


def _kind(attr):
    """D: a pending delayed-load placeholder; P: another property; V: a plain value; -: absent.
    Recognised by shape, not by name: the closure-based property of core.delayed_load, or any
    data descriptor defined by the library itself (a tree may implement the placeholder as a class)."""
    if attr is _ABSENT:
        return "-"
    if isinstance(attr, property):
        qn = getattr(attr.fget, "__qualname__", "")
        if "delayed" in qn.lower():
            return "D"
        return "P"
    cls = type(attr)
    if (getattr(cls, "__module__", "") or "").startswith("periodictable") and hasattr(cls, "__get__") \
            and hasattr(cls, "__set__"):
        return "D"
    return "V"


# ---------------------------------------------------------------------- serve
def _read_exact(fd, n):
    chunks = []
    while n:
        b = os.read(fd, n)
        if not b:
            raise EOFError
        chunks.append(b)
        n -= len(b)
    return b"".join(chunks)


def recv(fd):
    (n,) = struct.unpack("<I", _read_exact(fd, 4))
    return pickle.loads(_read_exact(fd, n))


def send(fd, obj):
    b = pickle.dumps(obj, 4)
    data = struct.pack("<I", len(b)) + b
    view = memoryview(data)
    while view:
        n = os.write(fd, view)
        view = view[n:]


def serve(rfd, wfd, repo, extra_mixins=()):
    """Command loop of a node.  Never returns normally; ends with os._exit."""
    faulthandler.enable()
    faulthandler.dump_traceback_later(180, exit=True)
    try:
        node = make_node(repo)
        send(wfd, ("ready", None))
    except BaseException as e:  # noqa: BLE001
        import traceback
        send(wfd, ("fail", traceback.format_exc()))
        os._exit(3)
    while True:
        faulthandler.cancel_dump_traceback_later()
        try:
            cmd = recv(rfd)
        except EOFError:
            os._exit(0)
        faulthandler.dump_traceback_later(180, exit=True)
        op = cmd[0]
        try:
            if op == "quit":
                os._exit(0)
            elif op == "batch":
                events, want_abs = cmd[1], cmd[2]
                res = []
                for ev in events:
                    out = node.run_event(ev)
                    res.append((out, node.abstract() if want_abs else None))
                send(wfd, ("ok", res))
            elif op == "fork_eval":
                # evaluate events in a throw-away fork of this node, so that this node (the
                # reference replica) never accumulates state from the expressions it is asked about
                r, w = os.pipe()
                pid = os.fork()
                if pid == 0:
                    try:
                        os.close(r)
                        res = [node.run_event(ev) for ev in cmd[1]]
                        send(w, res)
                    finally:
                        os._exit(0)
                os.close(w)
                try:
                    res = recv(r)
                except EOFError:
                    res = None
                os.close(r)
                os.waitpid(pid, 0)
                if res is None:
                    send(wfd, ("fail", "fork_eval child died"))
                else:
                    send(wfd, ("ok", res))
            elif op == "digest":
                send(wfd, ("ok", node.digest(*cmd[1:])))
            elif op == "abstract":
                send(wfd, ("ok", node.abstract()))
            elif op == "vocab":
                send(wfd, ("ok", node.vocab()))
            else:
                send(wfd, ("fail", "unknown op %r" % (op,)))
        except BaseException:  # noqa: BLE001
            import traceback
            send(wfd, ("fail", traceback.format_exc()))


def make_node(repo):
    from . import node_c10, node_c08  # noqa: F401  (mixins add ev_* handlers)
    cls = type("FullNode", (node_c10.C10Mixin, node_c08.C08Mixin, Node), {})
    return cls(repo)




# ----------------------------------------------------------------------------- I/O fault seam
# Non-verdict configuration only (DESIGN 7.2): data-file errors and interrupts inside a loader.
class InjectedInterrupt(BaseException):
    pass


class _FaultyFile(object):
    """A text file that raises EIO after k lines have been handed out."""

    def __init__(self, f, k, state):
        self._f, self._k, self._state, self._n = f, k, state, 0

    def __iter__(self):
        return self

    def __next__(self):
        if self._n >= self._k:
            self._state["fired"] += 1
            import errno
            raise OSError(errno.EIO, "injected EIO after %d lines" % self._k)
        self._n += 1
        return next(self._f)

    def readline(self, *a):
        try:
            return self.__next__()
        except StopIteration:
            return ""

    def read(self, *a):
        return "".join(self)

    def close(self):
        self._f.close()

    def __enter__(self):
        return self

    def __exit__(self, *a):
        self.close()

    def __getattr__(self, n):
        return getattr(self._f, n)


def install_io_fault(node, kind, target, k):
    import builtins
    import errno
    import numpy
    data_dir = os.path.dirname(os.path.realpath(node.pt.__file__))
    state = node.io_state = {"fired": 0, "kind": kind, "target": target, "k": k}
    saved = node.io_saved = {"open": builtins.open, "loadtxt": numpy.loadtxt, "exists": os.path.exists,
                             "trace": sys.gettrace()}

    def hit(path):
        p = os.path.realpath(str(path))
        return p.startswith(data_dir) and target in os.path.basename(p)

    if kind in ("open_emfile", "read_eio"):
        def fake_open(path, *a, **kw):
            if isinstance(path, (str, bytes, os.PathLike)) and hit(path):
                if kind == "open_emfile":
                    state["fired"] += 1
                    raise OSError(errno.EMFILE, "injected EMFILE", str(path))
                return _FaultyFile(saved["open"](path, *a, **kw), k, state)
            return saved["open"](path, *a, **kw)
        builtins.open = fake_open

        def fake_loadtxt(fname, *a, **kw):
            if isinstance(fname, (str, os.PathLike)) and hit(fname):
                state["fired"] += 1
                raise OSError(errno.EMFILE if kind == "open_emfile" else errno.EIO, "injected", str(fname))
            return saved["loadtxt"](fname, *a, **kw)
        numpy.loadtxt = fake_loadtxt
    elif kind == "exists_false":
        def fake_exists(path):
            if hit(path):
                state["fired"] += 1
                return False
            return saved["exists"](path)
        os.path.exists = fake_exists
    elif kind == "interrupt":
        # raise at the k-th traced line inside the named module of the package
        modfile = os.path.join(data_dir, target)
        count = [0]

        def local(frame, event, arg):
            if event == "line":
                count[0] += 1
                if count[0] == k:
                    state["fired"] += 1
                    sys.settrace(None)
                    raise InjectedInterrupt("injected interrupt at line event %d of %s" % (k, target))
            return local

        def tracer(frame, event, arg):
            if event == "call" and frame.f_code.co_filename == modfile and frame.f_code.co_name.startswith(("init", "_update", "energy_dependent")):
                return local
            return None
        sys.settrace(tracer)
    else:
        raise ValueError(kind)
    return "ok"


def clear_io_fault(node):
    import builtins
    import numpy
    saved = getattr(node, "io_saved", None)
    if saved:
        builtins.open = saved["open"]
        numpy.loadtxt = saved["loadtxt"]
        os.path.exists = saved["exists"]
        sys.settrace(None)
        node.io_saved = None
    return {"fired": getattr(node, "io_state", {}).get("fired", 0)}


def _ev_iofault(self, kind, target, k):
    return install_io_fault(self, kind, target, k)


def _ev_iofault_clear(self):
    return clear_io_fault(self)


Node.ev_iofault = _ev_iofault
Node.ev_iofault_clear = _ev_iofault_clear
