"""Known findings: committed, read-only at run time (DESIGN 6, Appendix C).

An *open* finding is a rule "trigger pattern on the history => these violation
triples".  Triples of a failing run that match a rule whose trigger occurs in
the history are attributed to the finding; anything left over is a VIOLATION.
A *fixed* entry suppresses nothing.
"""
import fnmatch
import json
import os

VERIF_DIR = os.path.dirname(os.path.dirname(os.path.abspath(__file__)))
PATH = os.path.join(VERIF_DIR, "known_findings.json")


def load(prop):
    if not os.path.exists(PATH):
        return []
    with open(PATH) as f:
        data = json.load(f)
    return [k for k in data if k.get("property") == prop]


def open_findings(prop):
    return [k for k in load(prop) if k.get("status") == "open"]


# --- triggers: predicates over (events, per-event context) ---------------------------------
def _events(run):
    return [ev for _, ev in run["events"]]


def trig_fasta_formula_with_table(run, ctx):
    return any(ev[0] == "formula" and isinstance(ev[2], str) and ev[2].split(":")[0] in ("aa", "dna", "rna")
               and ev[1] != "public" for ev in _events(run))


TRIGGERS = {
    "fasta_formula_with_table": trig_fasta_formula_with_table,
}


def matches(pattern, triple):
    for key, val in zip(("oracle", "role", "group", "kind"), triple):
        if not fnmatch.fnmatchcase(str(val), pattern.get(key, "*")):
            return False
    return True


def explain(findings, run, ctx, triples):
    """Split triples into {triple: finding id} and the unexplained rest."""
    explained, rest = {}, set()
    active = []
    for k in findings:
        trig = TRIGGERS.get(k.get("trigger"))
        if trig is not None and trig(run, ctx):
            active.append(k)
    for t in triples:
        for k in active:
            if any(matches(p, t) for p in k.get("explains", [])):
                explained[t] = k["id"]
                break
        else:
            rest.add(t)
    return explained, rest
