"""Node-side handlers for private-table events (C10)."""


class C10Mixin(object):
    pass
