"""Node-side handlers for private-table events (C10)."""
import copy
import pickle

import numpy as np

from . import canon as C
from .canon import canon


class C10Mixin(object):

    # -- tables ---------------------------------------------------------------
    def ev_names(self, mapping):
        """Per-run name map: the name the library is given for the table the events call T1, T2, ...
        (table names are user data: short ones, prefixes of each other, parts of the word 'public')."""
        self.namemap = dict(mapping)
        C.REAL2EV.clear()
        C.REAL2EV.update({real: ev for ev, real in mapping.items()})
        return "ok"

    def ev_newtable(self, name):
        t = self.core.PeriodicTable(getattr(self, "namemap", {}).get(name, name))
        self.tables[name] = t
        return "ok"

    # -- membership (O4) --------------------------------------------------------
    def _membership(self, tbl, f):
        """All atoms of formula f must *be* atoms of table tbl."""
        t = self.table(tbl)
        tname = "public" if tbl == "public" else tbl
        keys, foreign = [], 0
        for a in f.atoms:
            k = C.atom_key(a)
            keys.append(list(k))
            try:
                mine = self.atom(tbl, k[1:])
            except Exception:  # noqa: BLE001
                mine = None
            if mine is not a or k[0] != tname:
                foreign += 1
        keys.sort()
        return {"n": len(keys), "foreign": foreign, "tables": sorted({k[0] for k in keys})}

    def ev_formula(self, tbl, s, how="str"):
        t = self.table(tbl)
        pt = self.pt
        if how == "str":
            f = pt.formula(s, table=t)
        elif how == "density":
            f = pt.formula(s, table=t, density=1.0)
        elif how == "parse":
            f = self.module("periodictable.formulas").parse_formula(s, table=t)
        elif how == "copy":
            f = pt.formula(pt.formula(s, table=t))
        elif how == "pickle":
            f = pickle.loads(pickle.dumps(pt.formula(s, table=t)))
        elif how == "deepcopy":
            f = copy.deepcopy(pt.formula(s, table=t))
        elif how == "add":
            f = pt.formula(s, table=t) + 2 * pt.formula(s, table=t)
        elif how == "dict":
            f = pt.formula(dict(pt.formula(s, table=t).atoms))
        elif how == "hill":
            f = pt.formula(s, table=t).hill
        elif how == "replace":
            f = pt.formula(s, table=t).replace(t.H, t.D)
        elif how == "replace_iso":
            f = pt.formula(s, table=t).replace(t.H[1], t.H, 0.5)
        elif how == "natural":
            f = pt.formula(s, table=t, natural_density=1.3)
        elif how == "structure":
            f = pt.formula(pt.formula(s, table=t).structure)
        else:
            raise ValueError(how)
        out = self._membership(tbl, f)
        out["str"] = str(f)
        return out

    def ev_formula_reuse(self, src, s, op, dst):
        """A Formula parsed with table=src is kept by the caller and then handed, as an object, to
        another entry point together with table=dst (or without a table).  Afterwards the caller's
        formula must still contain only atoms of src."""
        pt = self.pt
        if op.startswith("own_"):
            return self._formula_owned(src, s, op, dst)
        f = pt.formula(s, table=self.table(src))
        before = self._membership(src, f)
        kw = {} if dst is None else {"table": self.table(dst)}
        res = None
        try:
            if op == "formula":
                res = pt.formula(f, **kw)
            elif op == "mix_weight":
                res = pt.mix_by_weight(f, 2, "H2O@1", 1, **kw)
            elif op == "mix_volume":
                res = pt.mix_by_volume(f, 2, "H2O@1", 1, density=1.0, **kw) if f.density is None else \
                    pt.mix_by_volume(f, 2, "H2O@1", 1, **kw)
            elif op == "nsld":
                pt.neutron_sld(f, density=1.0, wavelength=4.75, **kw)
            elif op == "nscat":
                pt.neutron_scattering(f, density=1.0, wavelength=4.75, **kw)
            elif op == "d2o":
                self.module("periodictable.nsf").D2O_sld(f, density=1.0, **kw)
            else:
                raise ValueError(op)
            raised = None
        except Exception as e:  # noqa: BLE001
            raised = type(e).__name__
        after = self._membership(src, f)
        # were the caller's atoms kept (by identity) in what came back?  Only judged when no table was
        # named: nobody asked for the formula to be moved to another table
        kept = None if res is None else all(any(a is b for b in res.atoms) for a in f.atoms)
        return {"before": before, "after": after, "raised": raised, "kept": kept}

    def _formula_owned(self, src, s, op, dst):
        """The caller owns the Formula it was handed: it edits that object in place (+=, density,
        name, change_table).  What the same string parses to afterwards -- with table=dst or
        without a table -- must be what it parsed to before, made of dst's atoms only."""
        pt = self.pt
        kw = {} if dst is None else {"table": self.table(dst)}
        dname = dst or "public"

        def look():
            g = pt.formula(s, **kw)
            out = self._membership(dname, g)
            out.update({"str": str(g), "density": canon(g.density), "name": canon(getattr(g, "name", None)),
                        "mass": canon(g.mass) if out["n"] else None})
            return out
        before = look()
        f = pt.formula(s, table=self.table(src))
        try:
            if op == "own_iadd":
                f += 2 * pt.formula("D2O", table=self.table(src))
            elif op == "own_density":
                f.density = 7.25
            elif op == "own_name":
                f.name = "mine"
            elif op == "own_change_table":
                others = [n for n in sorted(self.tables) if self.tables[n] is not self.table(src)]
                f.change_table(self.tables[others[0]] if others else self.table(src))
            else:
                raise ValueError(op)
            raised = None
        except Exception as e:  # noqa: BLE001
            raised = type(e).__name__
        return {"before": before, "after": look(), "raised": raised}

    def ev_mix(self, tbl, which, parts):
        t = self.table(tbl)
        fn = self.pt.mix_by_weight if which == "weight" else self.pt.mix_by_volume
        f = fn(*parts, table=t)
        return self._membership(tbl, f)

    def ev_change_table(self, src, s, dst):
        f = self.pt.formula(s, table=self.table(src))
        g = f.change_table(self.table(dst))
        return self._membership(dst, g)

    def ev_change_atom(self, src, ref, dst):
        a = self.atom(src, ref)
        b = self.core.change_table(a, self.table(dst))
        k = C.atom_key(b)
        dname = dst
        return {"same_key": list(k[1:]) == list(ref), "table_ok": k[0] == dname,
                "is": b is self.atom(dst, ref)}

    def ev_calc_str(self, tbl, which, s, density, x):
        """Calculators given the *string* and table=T (the library parses it)."""
        t = self.table(tbl)
        if which == "nscat":
            return canon(self.pt.neutron_scattering(s, density=density, wavelength=x, table=t))
        if which == "nsld":
            return canon(self.pt.neutron_sld(s, density=density, wavelength=x, table=t))
        raise ValueError(which)

    # -- pickling (O5) ----------------------------------------------------------
    def ev_dump(self, msgid, tbl, ref, proto):
        a = self.atom(tbl, ref)
        return ["B", pickle.dumps(a, proto)]

    def ev_dump_formula(self, msgid, tbl, s, proto):
        f = self.pt.formula(s, table=self.table(tbl))
        return ["B", pickle.dumps(f, proto)]

    def _is_mine(self, a):
        k = C.atom_key(a)
        t = self._registry().get(k[0])
        if t is None:
            return False
        el = t[k[1]]
        if k[2]:
            el = el[k[2]]
        if k[3]:
            el = el.ion[k[3]]
        return el is a

    # -- mutation ---------------------------------------------------------------
    def ev_mutate(self, tbl, ref, target, arg=None):
        a = self.atom(tbl, ref)
        v = 1.2345 if arg is None else arg
        if target in ("_mass", "_density", "_abundance", "_mass_unc", "_abundance_unc", "covalent_radius", "covalent_radius_uncertainty",
                      "K_alpha", "K_beta1", "density_caveat", "nuclear_spin"):
            if arg == "<del>":
                delattr(a, target)      # back to whatever the class serves; may raise (nothing to delete)
            else:
                setattr(a, target, None if arg == "<none>" else v)
            return "ok"
        if target == "crystal_structure_assign":
            a.crystal_structure = {"symmetry": "verif", "a": v}
            return "ok"
        if target == "crystal_structure_inplace":
            d = a.crystal_structure
            if d is None:
                return "skip"
            d["symmetry"] = "verif"
            d["a"] = v
            return "ok"
        if target == "neutron_assign":
            rec = copy.copy(a.neutron)
            rec.b_c = v
            a.neutron = rec
            return "ok"
        if target in ("neutron_field", "neutron_field_dataless"):
            rec = a.neutron
            has_data = any(getattr(rec, k, None) is not None for k in ("b_c", "coherent", "total", "absorption"))
            if has_data != (target == "neutron_field"):
                return "skip"      # the record served is (not) a missing-data placeholder
            rec.b_c = v
            rec.total = v
            return "ok"
        if target == "nsf_table_inplace":
            rec = a.neutron
            if rec.nsf_table is None:
                return "skip"
            rec.nsf_table[1][0] = v
            return "ok"
        if target == "magnetic_ff_field":
            d = a.magnetic_ff
            q = sorted(d)[0]
            d[q].j0 = (v,) * 7
            return "ok"
        if target == "magnetic_ff_dict":
            a.magnetic_ff[99] = "verif"
            return "ok"
        if target == "magnetic_ff_assign":
            a.magnetic_ff = {2: "verif"}
            return "ok"
        if target == "activation_row_field":
            rows = a.neutron_activation
            rows[0].thermalXS = v
            return "ok"
        if target == "activation_list":
            a.neutron_activation.append(a.neutron_activation[0])
            return "ok"
        if target == "activation_assign":
            a.neutron_activation = []
            return "ok"
        if target == "xray_newfield":
            a.xray.newfield = v
            return "ok"
        if target == "xray_sftable_inplace":
            tab = a.xray.sftable
            if tab is None:
                return "skip"
            tab[1][0] = v
            return "ok"
        if target == "add_isotope":
            a.add_isotope(int(arg))
            return "ok"
        raise ValueError(target)

    def ev_readback(self, tbl, ref, target):
        """What is now at the spot a named mutation wrote to (a customisation stays until the
        table's own group is initialised again, whatever happens to other tables)."""
        a = self.atom(tbl, ref)
        if target in ("_mass", "_density", "_abundance", "_mass_unc", "_abundance_unc", "covalent_radius", "covalent_radius_uncertainty",
                      "K_alpha", "K_beta1", "density_caveat", "nuclear_spin"):
            return canon(getattr(a, target))
        if target in ("crystal_structure_assign", "crystal_structure_inplace"):
            return canon(a.crystal_structure["a"])
        if target in ("neutron_assign", "neutron_field", "neutron_field_dataless"):
            return canon(a.neutron.b_c)
        if target == "nsf_table_inplace":
            x = complex(a.neutron.nsf_table[1][0])      # the column is complex; the mutation wrote a real number
            return canon(x.real if x.imag == 0 else x)
        if target == "magnetic_ff_field":
            d = a.magnetic_ff
            return canon(d[sorted(k for k in d if k != 99)[0]].j0[0])
        if target == "magnetic_ff_dict":
            return canon(a.magnetic_ff.get(99))
        if target == "magnetic_ff_assign":
            return canon(a.magnetic_ff.get(2))
        if target == "activation_row_field":
            return canon(a.neutron_activation[0].thermalXS)
        if target == "activation_assign":
            return canon(len(a.neutron_activation))
        if target == "xray_newfield":
            return canon(a.xray.newfield)
        if target == "xray_sftable_inplace":
            return canon(a.xray.sftable[1][0])
        raise ValueError(target)

    def ev_mutate_walk(self, tbl, group, k, how=None):
        """Generic mutation from the shared-object walk (DESIGN 3.4): collect the
        mutable objects reachable from the served values of `group` on `tbl`, in a
        fixed order, and mutate the (k mod n)-th one in place."""
        objs = self._walk(tbl, group, how == "with_defaults")
        if not objs:
            return "skip"
        o = objs[k % len(objs)]
        return self._poke(o)

    def _walk(self, tbl, group, defaults=False):
        t = self.table(tbl)
        seen, out = set(), []

        def visit(o, depth=0):
            if depth > 6 or id(o) in seen:
                return
            if isinstance(o, (dict, list, set)):
                seen.add(id(o))
                out.append(o)
                vals = o.values() if isinstance(o, dict) else o
                for x in list(vals):
                    visit(x, depth + 1)
            elif isinstance(o, tuple):
                for x in o:
                    visit(x, depth + 1)
            elif isinstance(o, np.ndarray):
                seen.add(id(o))
                if o.flags.writeable and o.size and o.dtype.kind in "fc":
                    out.append(o)
            elif type(o).__module__.startswith("periodictable") and \
                    type(o).__name__ not in ("Element", "Isotope", "Ion", "PeriodicTable", "IonSet"):
                seen.add(id(o))
                out.append(o)
                if type(o).__name__ == "Xray":
                    try:
                        visit(o.sftable, depth + 1)
                    except Exception:  # noqa: BLE001
                        pass
                else:
                    for x in list(vars(o).values()):
                        visit(x, depth + 1)

        names = {"covalent_radius": ["covalent_radius"], "crystal_structure": ["crystal_structure"],
                 "neutron": ["neutron"], "activation": ["neutron_activation"], "xray": ["xray"],
                 "emission": ["K_alpha"], "magnetic_ff": ["magnetic_ff"]}[group]
        for el in t:
            atoms = [el]
            if group in ("neutron", "activation"):
                atoms += list(el)
            if group == "xray":
                # ions and isotope ions have x-ray records of their own (plain isotopes delegate)
                ions = sorted(getattr(el, "ions", ()))
                if ions:
                    atoms.append(el.ion[ions[0]])
                    isos = list(el)
                    for iso in (isos[:1] if el.number != 1 else isos[:3]):
                        atoms.append(iso.ion[ions[-1]])
            for a in atoms:
                for n in names:
                    d = getattr(a, "__dict__", {})
                    if group == "xray":
                        try:
                            visit(a.xray)
                        except Exception:  # noqa: BLE001
                            pass
                    elif n in d:
                        visit(d[n])
                    elif defaults:
                        # class-level default served to this atom (e.g. the "missing" record)
                        try:
                            visit(getattr(a, n))
                        except Exception:  # noqa: BLE001
                            pass
        return out

    @staticmethod
    def _poke(o):
        if isinstance(o, dict):
            o["__verif__"] = 1
            for k in sorted(o, key=repr):
                if isinstance(o[k], float):
                    o[k] = o[k] + 1.0
                    break
            return "dict"
        if isinstance(o, list):
            o.append("__verif__")
            return "list"
        if isinstance(o, set):
            o.add("__verif__")
            return "set"
        if isinstance(o, np.ndarray):
            o.flat[0] = o.flat[0] + 1
            return "ndarray"
        for k, v in sorted(vars(o).items()):
            if isinstance(v, float):
                setattr(o, k, v + 1.0)
                return "record:" + type(o).__name__
        setattr(o, "verif_field", 1)
        return "record+:" + type(o).__name__
