"""Self-tests of the machinery: determinism (DESIGN 4.4) and sensitivity (DESIGN 4.5)."""
import glob
import json
import os
import shutil
import subprocess
import sys
import tempfile
import time

from . import events as E
from . import pool, proc, runner

VERIF_DIR = proc.VERIF_DIR
PROPS = ("C09", "C10", "C08")


def log(*a):
    print(*a, flush=True)


# ----------------------------------------------------------------------------- determinism
def cell(prop, master, n, workers, mode, repo):
    """Execute runs 0..n-1 of a batch and return {index: trace hash}."""
    ex = pool.make_pool(workers, repo, mode)
    try:
        tasks = [(prop, master, "quick", lo, min(lo + 5, n), None, False) for lo in range(0, n, 5)]
        hashes = {}
        for res in ex.map(pool.run_chunk, tasks):
            if "harness_error" in res:
                raise proc.HarnessError(res["harness_error"])
            hashes.update(res["hashes"])
    finally:
        ex.shutdown(wait=True, cancel_futures=True)
    return hashes


def cell_main(argv):
    prop, master, n, workers, mode, repo = argv[0], int(argv[1]), int(argv[2]), int(argv[3]), argv[4], argv[5]
    proc.preload()
    h = cell(prop, master, n, workers, mode, repo)
    print("CELL " + json.dumps({str(k): v for k, v in sorted(h.items())}))
    return 0


def determinism(master, repo, workers, n=200):
    """n run seeds x {twice} x {4, 16 workers} x {PYTHONHASHSEED 0, 1, random} x {fork, fresh subprocess}."""
    t0 = time.time()
    cells = []
    for hs, w, mode, rep in (("0", 16, "fork", 1), ("0", 16, "fork", 2), ("1", 4, "fork", 1),
                             ("random", 16, "fork", 1), ("0", 16, "subprocess", 1), ("1", 4, "subprocess", 1)):
        cells.append((hs, min(w, workers), mode, rep))
    bad = 0
    report = {}
    for prop in PROPS:
        ref = None
        for hs, w, mode, rep in cells:
            env = dict(os.environ)
            env["PYTHONHASHSEED"] = hs
            nn = n if mode == "fork" else max(20, n // 4)
            out = subprocess.run(
                [sys.executable, "-c", "import sys; from sim.selftest import cell_main; sys.exit(cell_main(sys.argv[1:]))",
                 prop, str(master), str(nn), str(w), mode, repo],
                env=env, cwd=VERIF_DIR, capture_output=True, text=True, timeout=3600)
            line = [l for l in out.stdout.splitlines() if l.startswith("CELL ")]
            if out.returncode != 0 or not line:
                log("HARNESS-ERROR: determinism cell %s failed:\n%s\n%s" % ((prop, hs, w, mode), out.stdout[-2000:], out.stderr[-2000:]))
                return 2
            h = json.loads(line[0][5:])
            if ref is None:
                ref = h
            diff = [k for k in h if ref.get(k) != h[k]]
            report["%s hashseed=%s workers=%d %s #%d" % (prop, hs, w, mode, rep)] = {"runs": len(h), "mismatch": diff[:10]}
            log("%s hashseed=%s workers=%d mode=%s rep=%d: %d runs, %d mismatches" % (prop, hs, w, mode, rep, len(h), len(diff)))
            bad += len(diff)
    os.makedirs(os.path.join(VERIF_DIR, "evidence"), exist_ok=True)
    with open(os.path.join(VERIF_DIR, "evidence", "selftest-determinism.json"), "w") as f:
        json.dump({"seed": master, "wall_s": round(time.time() - t0, 1), "cells": report, "mismatches": bad}, f, indent=1)
    log("determinism self-test: %d mismatching runs, %.0fs" % (bad, time.time() - t0))
    return 0 if bad == 0 else 2


# ----------------------------------------------------------------------------- sensitivity
def scratch_copy(repo):
    d = tempfile.mkdtemp(prefix="verif-mutant-")
    for item in ("periodictable", "doc", "test", "conftest.py", "pytest.ini", "setup.py", "README.rst"):
        src = os.path.join(repo, item)
        if os.path.isdir(src):
            shutil.copytree(src, os.path.join(d, item), ignore=shutil.ignore_patterns("__pycache__", "*.pyc"))
        elif os.path.exists(src):
            shutil.copy(src, d)
    return d


def mutants(master, workers, only=None, run_tests=True):
    """Each patch under tools/mutants (and seeded/*/patch.diff) must be caught by the quick tier of its property."""
    repo = proc.repo_root()
    patches = sorted(glob.glob(os.path.join(VERIF_DIR, "tools", "mutants", "*.patch")))
    patches += sorted(glob.glob(os.path.join(VERIF_DIR, "seeded", "*", "patch.diff")))
    if only:
        patches = [p for p in patches if only in p]
    results = []
    for p in patches:
        if p.endswith("patch.diff"):
            meta = json.load(open(os.path.join(os.path.dirname(p), "meta.json")))
            if meta.get("retired"):
                continue
            prop = meta["property"]
            name = os.path.basename(os.path.dirname(p))
        else:
            name = os.path.basename(p)[:-6]
            prop = name.split("-")[0]
        d = scratch_copy(repo)
        try:
            r = subprocess.run(["git", "apply", p], cwd=d, capture_output=True, text=True)
            if r.returncode != 0:
                results.append({"mutant": name, "property": prop, "error": "patch does not apply: " + r.stderr[-300:]})
                log("%-50s patch does not apply" % name)
                continue
            tests = None
            if run_tests:
                env = dict(os.environ, PYTHONPYCACHEPREFIX=os.path.join(d, ".pyc"))
                tr = subprocess.run([sys.executable, "-m", "pytest", "-q", "-p", "no:cacheprovider", "-x", "--no-cov"],
                                    cwd=d, capture_output=True, text=True, env=env, timeout=1800)
                tests = tr.stdout.strip().splitlines()[-1] if tr.stdout.strip() else tr.stderr[-200:]
            env = dict(os.environ, VERIF_REPO=d, VERIF_SEED=str(master))
            t0 = time.time()
            cr = subprocess.run([os.path.join(VERIF_DIR, "check"), prop.lower(), "--tier", "quick",
                                 "--workers", str(workers), "--no-evidence"],
                                cwd=VERIF_DIR, capture_output=True, text=True, env=env, timeout=3600)
            viol = [l for l in cr.stdout.splitlines() if l.startswith("VIOLATION")]
            classes = [l.strip() for l in cr.stdout.splitlines() if l.strip().startswith("class ")]
            res = {"mutant": name, "property": prop, "exit": cr.returncode, "violations": len(viol),
                   "classes": [c[:300] for c in classes], "tests": tests, "wall_s": round(time.time() - t0, 1)}
            if cr.returncode not in (0, 1):
                res["tail"] = cr.stdout[-1500:] + cr.stderr[-500:]
            results.append(res)
            log("%-50s exit=%d violations=%d tests=%s (%.0fs)" % (name, cr.returncode, len(viol), tests, time.time() - t0))
        finally:
            shutil.rmtree(d, ignore_errors=True)
    caught = sum(1 for r in results if r.get("exit") == 1 and r.get("violations"))
    os.makedirs(os.path.join(VERIF_DIR, "evidence"), exist_ok=True)
    with open(os.path.join(VERIF_DIR, "evidence", "selftest-mutants.json"), "w") as f:
        json.dump({"seed": master, "caught": caught, "total": len(results), "results": results}, f, indent=1)
    log("sensitivity self-test: %d of %d caught" % (caught, len(results)))
    return 0 if caught == len(results) else 1


# ----------------------------------------------------------------------------- specificity
def benign(master, workers, only=None):
    """Behaviour-preserving refactorings (benign/<id>/patch.diff, written by independent
    sub-agents who were asked NOT to break the property) must leave every check silent."""
    repo = proc.repo_root()
    patches = sorted(glob.glob(os.path.join(VERIF_DIR, "benign", "*", "patch.diff")))
    if only:
        patches = [p for p in patches if only in p]
    results = []
    bad = 0
    for p in patches:
        name = os.path.basename(os.path.dirname(p))
        d = scratch_copy(repo)
        try:
            r = subprocess.run(["git", "apply", p], cwd=d, capture_output=True, text=True)
            if r.returncode != 0:
                results.append({"refactor": name, "error": "patch does not apply: " + r.stderr[-300:]})
                log("%-36s patch does not apply" % name)
                bad += 1
                continue
            env = dict(os.environ, PYTHONPYCACHEPREFIX=os.path.join(d, ".pyc"))
            tr = subprocess.run([sys.executable, "-m", "pytest", "-q", "-p", "no:cacheprovider", "-x", "--no-cov"],
                                cwd=d, capture_output=True, text=True, env=env, timeout=1800)
            tests = tr.stdout.strip().splitlines()[-1] if tr.stdout.strip() else tr.stderr[-200:]
            row = {"refactor": name, "tests": tests, "checks": {}}
            for prop in ("c08", "c09", "c10"):
                env = dict(os.environ, VERIF_REPO=d, VERIF_SEED=str(master))
                cr = subprocess.run([os.path.join(VERIF_DIR, "check"), prop, "--tier", "quick",
                                     "--workers", str(workers), "--no-evidence"],
                                    cwd=VERIF_DIR, capture_output=True, text=True, env=env, timeout=3600)
                row["checks"][prop] = cr.returncode
                if cr.returncode != 0:
                    bad += 1
                    row.setdefault("tails", {})[prop] = cr.stdout[-1200:]
            results.append(row)
            log("%-36s tests=%s checks=%s" % (name, tests, row["checks"]))
        finally:
            shutil.rmtree(d, ignore_errors=True)
    with open(os.path.join(VERIF_DIR, "evidence", "selftest-benign.json"), "w") as f:
        json.dump({"seed": master, "alarms": bad, "results": results}, f, indent=1)
    log("specificity self-test: %d alarms on %d behaviour-preserving refactorings" % (bad, len(results)))
    return 0 if bad == 0 else 1
