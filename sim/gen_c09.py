"""History generator for C09: first-touch events on the public table (DESIGN 2.3, 5/C09)."""
import random

from . import events as E
from . import model as M
from .runner import event_group

_STRATA = None


def strata(V):
    global _STRATA
    if _STRATA is None:
        _STRATA = E.c09_strata(V)
    return _STRATA


def state_key(pending):
    return ",".join(sorted(pending))


def gen(seed, V, tier, index, bias=None):
    rng = random.Random(seed)
    fams = [f for f in E.C09_FAMILIES if rng.random() < 0.5]
    if not fams:
        fams = [rng.choice(E.C09_FAMILIES)]
    if tier == "thorough" and rng.random() < 0.15:
        fams.append("extension")
    cfg = {"families": fams}
    cap = 16 if tier == "quick" else 24
    n = 1
    while n < cap and rng.random() < 0.75:
        n += 1
    evs = []
    st = strata(V)
    bs = E.c09_burst_strata()
    if index < len(st):
        first = st[index]
        if isinstance(first, tuple):
            first = E.gen_calc(rng, V, which=first[1])
        evs.append(first)
    elif index < len(st) + len(bs):
        evs += [list(e) for e in bs[index - len(st)]]
        n = max(n, len(evs))
    pool = []        # compound strings of this run (reused by later calculator events)
    pred = M.Predict()
    for e in evs:
        pred.feed(e)
    seen = bias.get("pairs") if bias else None
    greybox = 0
    while len(evs) < n:
        e = E.gen_c09_event(rng, V, cfg, pool)
        if seen is not None and rng.random() < 0.5:
            # greybox bias: among a few candidates prefer one whose (predicted loader state,
            # event group) pair no earlier generation has executed
            sk = state_key(pred.pub_pending)
            cands = [e] + [E.gen_c09_event(rng, V, {"families": E.C09_FAMILIES}, pool) for _ in range(3)]
            for c in cands:
                if (sk + "|" + event_group(c)) not in seen:
                    e = c
                    greybox += 1
                    break
        if "calculator" in fams and rng.random() < 0.12:
            # a burst: one compound revisited through one calculator family with other arguments
            burst = E.gen_burst(rng, V, pool=pool)
            for b in burst[:-1]:
                evs.append(b)
                pred.feed(b)
            e = burst[-1]
        elif "calculator" in fams and rng.random() < 0.08:
            burst = E.gen_relatives_burst(rng, V)
            for b in burst[:-1]:
                evs.append(b)
                pred.feed(b)
            e = burst[-1]
        evs.append(e)
        pred.feed(e)
        # retry fault: re-issue the same operation straight away
        if rng.random() < 0.12 and len(evs) < n:
            evs.append(list(e))
    cfg["greybox_choices"] = greybox
    return {"prop": "C09", "seed": seed, "index": index, "cfg": cfg,
            "events": [[0, e] for e in evs]}
