"""Entry point of a fresh-subprocess node: python -m sim.node_main <rfd> <wfd> <repo>."""
import sys

from sim import node

if __name__ == "__main__":
    node.serve(int(sys.argv[1]), int(sys.argv[2]), sys.argv[3])
