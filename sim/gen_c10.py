"""History generator for C10 (private tables)."""


def gen(seed, V, tier, index, bias=None):
    raise NotImplementedError
