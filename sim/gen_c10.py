"""History generator for C10: private tables next to the public one (DESIGN 2.3, 5/C10)."""
import random

from . import events as E
from . import model as M

FORMULAS = ["H2O", "CaCO3+6H2O", "D2O", "H[2]2O", "Fe{2+}O", "Ni[58]{3+}Cl3", "NaCl // H2O",
            "5wt% NaCl // H2O", "(CH2)8", "Fe2(SO4)3", "T2O", "50vol% D2O@1.1 // H2O@1", "Gd[155]2O3",
            "1mm Fe // 2mm Ni", "5g NaCl // 50mL H2O@1", " ", "n", "U[235]O2",
            # more of the grammar: D/T ions, nested groups, density suffixes inside mixtures, grouped mixtures
            "D{+}2O", "T{+}Cl{-}", "(H[1]2O)3(D2O)2@1.05", "((CH2)2O)3@1.1n", "(50wt% D2O@1.1 // H2O@1)@1.05",
            "2nm (Fe[56]2O3)@5.2 // 3nm Ni{2+}O@6.7", "10wt% D{+}Cl{-}@1.2n // T2O@1.2n",
            "Ca[40]C[13]O[18]3+6H[1]2O", "3 HCl", "5mg D2O // 2mL T2O@1.2",
            "30%vol (CD2)4@0.9 // 20% T{+}F{-}@1.1 // H[3]2O@1.2", "D[2]2O",
            # failing operations: must raise and leave the grammar of every table usable
            "Xx2O", "Fe{9+}O", "H2O)", "Fe[400]2O3", "5wt% Qq // H2O"]
FASTA = ["aa:AVG", "dna:ACGT", "rna:ACGU"]
FORMULA_HOW = ["str", "str", "density", "parse", "copy", "pickle", "deepcopy", "add", "dict", "hill", "replace",
               "replace_iso", "natural", "structure"]

DATALESS = [[84, 0, 0], [118, 0, 0], [89, 0, 0], [85, 0, 0], [1, 4, 0], [26, 45, 0]]     # atoms without neutron data
WITH_NEUTRON = [[26, 0, 0], [26, 56, 0], [1, 0, 0], [1, 2, 0], [64, 0, 0], [79, 0, 0], [79, 197, 0], [28, 58, 0]]
ENERGY_DEP = [[64, 0, 0], [64, 155, 0], [64, 157, 0], [71, 0, 0], [71, 176, 0], [62, 149, 0], [62, 0, 0], [63, 151, 0], [66, 164, 0], [68, 167, 0], [70, 168, 0]]
MAGNETIC = [[26, 0, 0], [28, 0, 0], [25, 0, 0], [64, 0, 0], [27, 0, 0]]
ACTIVATED = [[27, 59, 0], [79, 197, 0], [11, 23, 0], [26, 58, 0], [13, 27, 0]]
READBACK = {"_mass", "_density", "_abundance", "_mass_unc", "_abundance_unc", "covalent_radius",
            "covalent_radius_uncertainty", "K_alpha", "K_beta1", "density_caveat", "nuclear_spin",
            "crystal_structure_assign", "crystal_structure_inplace", "neutron_assign", "neutron_field",
            "neutron_field_dataless", "nsf_table_inplace", "magnetic_ff_field", "magnetic_ff_dict", "magnetic_ff_assign",
            "activation_row_field", "activation_assign", "xray_newfield", "xray_sftable_inplace"}
SETATTR = {"_mass", "_density", "_abundance", "_mass_unc", "_abundance_unc", "covalent_radius",
           "covalent_radius_uncertainty", "K_alpha", "K_beta1", "density_caveat", "nuclear_spin"}
CRYSTAL = [[26, 0, 0], [29, 0, 0], [13, 0, 0], [6, 0, 0]]


def gen_mutation(rng, V, tbl, pred, allow_known):
    props = set(M.GROUPS9) if tbl == "public" else pred.tprops.get(tbl, set())
    has_mass = "mass" in props
    hot = [rng.choice(E.HOT_Z), 0, 0]
    choices = [("_mass", hot if rng.random() < 0.4 else V.atom(rng, "iso" if has_mass and rng.random() < 0.4 else "el")),
               ("_density", hot if rng.random() < 0.4 else V.atom(rng, "el")), ("_mass_unc", V.atom(rng, "el")),
               ("_abundance", V.atom(rng, "iso") if has_mass else [1, 2, 0]),
               ("_abundance_unc", V.atom(rng, "iso") if has_mass else [1, 3, 0]),
               ("covalent_radius", V.atom(rng, "el")), ("covalent_radius_uncertainty", V.atom(rng, "el")),
               ("K_alpha", rng.choice([[29, 0, 0], [28, 0, 0], [42, 0, 0], [1, 0, 0]])),
               ("K_beta1", [29, 0, 0]),
               ("crystal_structure_assign", rng.choice(CRYSTAL)),
               ("density_caveat", V.atom(rng, "el"))]
    if "neutron" in props:
        choices += [("neutron_assign", rng.choice(WITH_NEUTRON)), ("neutron_field", rng.choice(WITH_NEUTRON)),
                    ("neutron_field", rng.choice(WITH_NEUTRON)),
                    ("nsf_table_inplace", rng.choice(ENERGY_DEP)), ("nuclear_spin", [26, 56, 0])]
        choices += [("neutron_field_dataless", rng.choice(DATALESS))]
    else:
        choices += [("neutron_assign", rng.choice(WITH_NEUTRON))] if "mass" in props and "density" in props else []
    if "crystal_structure" in props:
        choices += [("crystal_structure_inplace", rng.choice(CRYSTAL))] * 2
    if "magnetic_ff" in props:
        choices += [("magnetic_ff_field", rng.choice(MAGNETIC)), ("magnetic_ff_dict", rng.choice(MAGNETIC))]
    choices += [("magnetic_ff_assign", rng.choice(MAGNETIC))]
    if "activation" in props and "mass" in props:
        choices += [("activation_row_field", rng.choice(ACTIVATED)), ("activation_list", rng.choice(ACTIVATED)),
                    ("activation_assign", rng.choice(ACTIVATED))]
    if "xray" in props:
        specials = [[26, 0, 0], [29, 0, 0], [26, 0, 2], [1, 2, 1], [1, 3, -1], [1, 0, 1], [8, 0, -2]]
        if has_mass:
            specials += [[26, 56, 2], [1, 1, 1], [28, 58, 3]]
        choices += [("xray_newfield", V.atom(rng, rng.choice(["el", "ion"]))),
                    ("xray_sftable_inplace", rng.choice(specials)),
                    ("xray_sftable_inplace", V.atom(rng, rng.choice(["el", "ion"] + (["isoion"] if has_mass else []))))]
    if "mass" in props:
        choices += [("add_isotope", [26, 0, 0])]
    target, atom = rng.choice(choices)
    ev = ["mutate", tbl, atom, target]
    if target == "add_isotope":
        ev.append(rng.choice([40, 99]))
    elif target in SETATTR and rng.random() < 0.25:
        ev.append(rng.choice(["<none>", "<none>", "<del>"]))     # the user blanks or deletes the value instead
    return ev


def table_script(rng, V, tbl, cfg, pred_hint):
    """Open-loop script of one PrivateTableBuilder (+ optional reader/mutator/formula clients on T)."""
    evs = [["newtable", tbl]]
    order = list(M.GROUPS9)
    rng.shuffle(order)
    k = rng.choice([2, 4, 6, 9, 9, 9])
    order = order[:k]
    if cfg["respect_prereq"][tbl]:
        for need, g in (("mass", "neutron"), ("density", "neutron"), ("mass", "activation")):
            if g in order:
                if need not in order:
                    order.insert(0, need)
                if order.index(need) > order.index(g):
                    order.remove(need)
                    order.insert(order.index(g), need)
    inits = [["init", tbl, g, False] for g in order]
    if cfg["retry"][tbl]:
        missing = [g for g in M.GROUPS9 if g not in order]
        rng.shuffle(missing)
        inits += [["init", tbl, g, False] for g in missing]
        inits += [["init", tbl, g, False] for g in order if g in ("neutron", "activation")]
        if rng.random() < 0.3:
            inits += [["init", tbl, rng.choice(order), True]]
    evs += inits
    return evs


def gen(seed, V, tier, index, bias=None):
    rng = random.Random(seed)
    thorough = tier == "thorough"
    ntab = 1 if rng.random() < (0.4 if thorough else 0.6) else 2
    tables = ["T1", "T2"][:ntab]
    fam = {f: rng.random() < p for f, p in (
        ("mutator", 0.5), ("pub_reader", 0.6), ("pub_calc", 0.4), ("importer", 0.25), ("pub_init", 0.25),
        ("formula", 0.5), ("pickler", 0.3), ("t_reader", 0.5), ("walker", 0.3), ("prober", 0.2))}
    cfg = {"tables": tables, "families": sorted(f for f, on in fam.items() if on),
           "respect_prereq": {t: rng.random() < 0.5 for t in tables},
           "retry": {t: rng.random() < 0.5 for t in tables},
           "public_late": rng.random() < 0.5,
           "allow_known": rng.random() < 0.15,
           "public_mutator": rng.random() < 0.3,
           "two_nodes": fam["pickler"] and rng.random() < 0.5}
    strata = c10_strata()
    prefix = []
    if index < len(strata):
        prefix = [list(e) for e in strata[index]]
        cfg["stratum"] = index

    scripts = {}
    for t in tables:
        scripts[t] = table_script(rng, V, t, cfg, None)
    if prefix:
        # the stratum already creates T1 and issues its own init
        scripts["T1"] = [e for e in scripts["T1"] if e[0] != "newtable"]

    pool = []        # compound strings shared by every calculator call of this run (all tables)
    # public client script
    pub = []
    npub = rng.choice([0, 1, 2, 4, 6])
    for _ in range(npub):
        r = rng.random()
        if fam["pub_reader"] and r < 0.5:
            pub.append(E.gen_read(rng, V))
        elif fam["pub_calc"] and r < 0.75:
            pub.append(E.gen_calc(rng, V, which=rng.choice(
                ["nscat", "nsld", "xsld", "volume", "activation", "emission_table", "list", "mff", "f0", "fasta_const",
                 "d2o_match", "d2o_sld", "composite", "formula_methods"]), pool=pool))
        elif fam["importer"] and r < 0.85:
            pub.append(["import", rng.choice(E.IMPORTS)])
        elif fam["pub_init"] and r < 0.95:
            pub.append(["init", "public", rng.choice(E.INIT_GROUPS), rng.random() < 0.2])
        elif fam["prober"]:
            pub.append(["probe", "public", V.atom(rng), rng.choice(E.PROBES)])
        else:
            pub.append(E.gen_read(rng, V))

    # a late table is created and initialised only after the client phase, i.e. after the
    # first table has been read, mutated, pickled
    late = None
    if len(tables) == 2 and not prefix and rng.random() < 0.4:
        late = "T2"
        cfg["late_table"] = late
    # interleave: seeded weighted choice among the open-loop scripts
    queues = [scripts[t] for t in tables if t != late]
    if not cfg["public_late"]:
        queues.append(pub)
    merged = list(prefix)
    while any(queues):
        live = [q for q in queues if q]
        q = rng.choice(live)
        merged.append(q.pop(0))
    if cfg["public_late"]:
        merged += pub

    # second phase: clients that use the tables (their choices follow the *predicted* state)
    pred = M.Predict()
    fired = {}
    for ev in merged:
        f = pred.feed(ev)
        if f:
            fired[f] = fired.get(f, 0) + 1
    extra = []
    nextra = rng.choice([2, 4, 8, 12, 20, 28] if thorough else [0, 2, 4, 8, 12])
    msg = 0
    live_tables = [t for t in tables if t != late]
    late_at = rng.randrange(nextra // 2, nextra + 1) if late else None
    for step in range(nextra + (1 if late else 0)):
        if late and step == late_at:
            for ev in scripts[late]:
                f = pred.feed(ev)
                if f:
                    fired[f] = fired.get(f, 0) + 1
                extra.append(ev)
            live_tables = list(tables)
            fired["second_table_after_first_modified"] = fired.get("second_table_after_first_modified", 0) + 1
            continue
        t = rng.choice(live_tables)
        r = rng.random()
        spots = [e for e in extra + merged if e[0] == "mutate" and e[3] in READBACK]
        if spots and rng.random() < 0.10:
            # is a customisation made earlier still there (whatever happened to other tables since)?
            e = rng.choice(spots)
            ev = ["readback", e[1], e[2], e[3]]
        elif fam["mutator"] and cfg["public_mutator"] and rng.random() < 0.12:
            # the user customises the PUBLIC table; private tables must not follow (symmetric isolation)
            ev = gen_mutation(rng, V, "public", pred, False)
        elif rng.random() < 0.08:
            # an init (often a reload) in the middle of the client phase: after data was modified
            ev = ["init", rng.choice(live_tables + ["public"]), rng.choice(M.GROUPS9), rng.random() < 0.7]
        elif fam["mutator"] and r < 0.3:
            ev = gen_mutation(rng, V, t, pred, cfg["allow_known"])
        elif fam["walker"] and r < 0.4:
            gs = [g for g in pred.tprops.get(t, ()) if g in E.LAZY_GROUPS]
            if not gs:
                continue
            ev = ["mutate_walk", t, rng.choice(sorted(gs)), rng.randrange(10000), "instance"]
        elif fam["formula"] and r < 0.6:
            s = rng.choice(FORMULAS) if rng.random() < 0.7 else V.formula(rng)
            if cfg["allow_known"] and rng.random() < 0.3:
                s = rng.choice(FASTA)
            which = rng.random()
            tt = rng.choice(live_tables + ["public"])
            if which < 0.06 and s.strip() and ":" not in s:
                dst = rng.choice(live_tables + ["public", None])
                ev = ["formula_reuse", tt, s if "//" not in s else "H2O@1",
                      rng.choice(["formula", "mix_weight", "mix_volume", "nsld", "nscat", "d2o"]), dst]
            elif which < 0.12 and ":" not in s:
                # the caller edits, in place, the Formula it was handed; the string is parsed again elsewhere
                ev = ["formula_reuse", tt, s, rng.choice(["own_iadd", "own_density", "own_name", "own_change_table"]),
                      rng.choice([d for d in live_tables + ["public", None] if (d or "public") != tt] or [None])]
            elif which < 0.6:
                ev = ["formula", tt, s, rng.choice(FORMULA_HOW)]
            elif which < 0.75:
                ev = ["mix", tt, rng.choice(["weight", "volume"]), ["H2O@1", 1, "D2O@1.1", 2]]
            elif which < 0.9:
                ev = ["change_table", tt, s, rng.choice(live_tables + ["public"])]
            else:
                ev = ["change_atom", tt, V.atom(rng), rng.choice(live_tables + ["public"])]
        elif fam["t_reader"] and r < 0.8:
            rr = rng.random()
            if rr < 0.5:
                ev = E.gen_read(rng, V, tbl=t)
                if ev[2][1] and "mass" not in pred.tprops.get(t, ()):
                    ev[2][1] = 0     # no isotopes before mass.init(T)
            elif rr < 0.65:
                at = V.atom(rng)
                if at[1] and "mass" not in pred.tprops.get(t, ()):
                    at[1] = 0
                ev = ["probe", t, at, rng.choice(E.PROBES)]
            else:
                ev = E.gen_calc(rng, V, tbl=rng.choice([t, t, "public"]), which=rng.choice(
                    ["nscat", "xsld", "volume", "mass", "activation", "list", "emission_table", "d2o_match", "d2o_sld",
                     "composite", "formula_methods"]), pool=pool)
        elif fam["pickler"] and r < 0.95 and rng.random() < 0.3:
            # a pickled Formula of T travels instead of a single atom
            msg += 1
            s = rng.choice(["H2O", "Fe{2+}O{2-}", "CaCO3+6H2O", "D2O", "NaCl // H2O", "Ni[58]{3+}Cl3", "Gd[155]2O3"])
            if "mass" not in pred.tprops.get(t, ()) and "[" in s:
                s = "Fe{2+}O{2-}"
            extra.append(["dump_formula", msg, t, s, rng.choice([0, 2, 4, 5])])
            ev = ["load", msg, t, ["formula", s]]
        elif fam["pickler"] and r < 0.95:
            msg += 1
            at = V.atom(rng)
            if at[1] and "mass" not in pred.tprops.get(t, ()):
                at[1] = 0
            extra.append(["dump", msg, t, at, rng.choice([0, 2, 4, 5])])
            ev = ["load", msg, t, at]
        else:
            ev = E.gen_read(rng, V)
        f = pred.feed(ev)
        if f:
            fired[f] = fired.get(f, 0) + 1
        extra.append(ev)
        if rng.random() < 0.1:
            extra.append(list(ev))       # retry
    evs = merged + extra
    # a duplicate table name is a failing operation that must change nothing
    if rng.random() < 0.15:
        evs.insert(rng.randrange(1, len(evs) + 1), ["newtable", rng.choice(tables)])
    if rng.random() < 0.05:
        evs.insert(rng.randrange(0, len(evs) + 1), ["newtable", "public"])
    evs = evs[:72 if thorough else 44]
    hist = [[0, e] for e in evs]
    if cfg["two_nodes"]:
        # pickles travel to a second interpreter; the scheduler decides when (and whether) the
        # table exists there, duplicates deliveries and restarts the receiver
        hist = []
        loads = []
        for e in evs:
            if e[0] == "load":
                loads.append(e)
            else:
                hist.append([0, e])
        rng.shuffle(loads)                      # reordered delivery
        recv = []
        for t in tables:
            if rng.random() < 0.75:
                setup = [["newtable", t]]
                if rng.random() < 0.7:
                    setup.append(["init", t, "mass", False])
                recv.append(setup)
        tail = []
        for e in loads:
            tail.append([1, e])
            if rng.random() < 0.2:
                tail.append([1, list(e)])       # duplicate delivery
        for setup in recv:
            pos = rng.randrange(0, len(tail) + 1)
            tail[pos:pos] = [[1, x] for x in setup]
        if tail and rng.random() < 0.25:
            pos = rng.randrange(0, len(tail) + 1)
            tail.insert(pos, [1, ["restart"]])
        # node 1 also uses its own public table a little
        if rng.random() < 0.5:
            tail.insert(rng.randrange(0, len(tail) + 1), [1, E.gen_read(rng, V)])
        hist += tail
    nm = E.name_map(seed)
    if nm:
        cfg["names"] = nm
    return {"prop": "C10", "seed": seed, "index": index, "cfg": cfg,
            "events": hist, "predicted_fired": fired}


_STRATA = None


def c10_strata():
    """Each (private init x public group pending/loaded) pair, each mutation target once."""
    global _STRATA
    if _STRATA is not None:
        return _STRATA
    out = []
    pre = {"neutron": [["init", "T1", "mass", False], ["init", "T1", "density", False]],
           "activation": [["init", "T1", "mass", False]]}
    for g in M.GROUPS9:
        for public_first in (False, True):
            s = []
            if public_first and g in E.LAZY_GROUPS:
                s.append(["init", "public", g, False])
            s.append(["newtable", "T1"])
            s += pre.get(g, [])
            s.append(["init", "T1", g, False])
            out.append(s)
    # failing init, then prerequisites, then one retry (O6)
    out.append([["newtable", "T1"], ["init", "T1", "neutron", False], ["init", "T1", "mass", False],
                ["init", "T1", "density", False], ["init", "T1", "neutron", False]])
    out.append([["newtable", "T1"], ["init", "T1", "activation", False], ["init", "T1", "mass", False],
                ["init", "T1", "activation", False]])
    # assignment on a private atom while the public group is pending
    for target, atom in (("covalent_radius", [26, 0, 0]), ("K_alpha", [29, 0, 0]),
                         ("crystal_structure_assign", [26, 0, 0]), ("magnetic_ff_assign", [26, 0, 0])):
        out.append([["newtable", "T1"], ["mutate", "T1", atom, target]])
    full = [["newtable", "T1"]] + [["init", "T1", g, False] for g in
                                   ["mass", "density", "neutron", "xray", "emission", "covalent_radius",
                                    "crystal_structure", "magnetic_ff", "activation"]]
    for target, atom in (("crystal_structure_inplace", [26, 0, 0]), ("neutron_field", [26, 0, 0]),
                         ("nsf_table_inplace", [64, 0, 0]), ("magnetic_ff_field", [26, 0, 0]),
                         ("magnetic_ff_dict", [26, 0, 0]), ("activation_row_field", [27, 59, 0]),
                         ("activation_list", [27, 59, 0]), ("xray_newfield", [96, 0, 0]),
                         ("xray_sftable_inplace", [26, 0, 0]), ("xray_sftable_inplace", [26, 56, 2]),
                         ("xray_sftable_inplace", [1, 2, 1]), ("xray_sftable_inplace", [1, 3, -1]),
                         ("_mass", [96, 0, 0]), ("_density", [96, 0, 0])):
        out.append(full + [["mutate", "T1", atom, target]])
    for g in E.LAZY_GROUPS:
        for k in (0, 1, 7):
            out.append(full + [["mutate_walk", "T1", g, k, "instance"]])
    # two tables, mutate one
    two = full + [["newtable", "T2"]] + [["init", "T2", g, False] for g in
                                        ["mass", "density", "neutron", "xray", "emission", "covalent_radius",
                                         "crystal_structure", "magnetic_ff", "activation"]]
    for g in E.LAZY_GROUPS:
        out.append(two + [["mutate_walk", "T1", g, 3, "instance"]])
    # a formula object of one table handed to an entry point together with another table
    for op in ("formula", "mix_weight", "mix_volume", "nsld", "nscat", "d2o"):
        out.append([["newtable", "T1"], ["init", "T1", "mass", False], ["init", "T1", "density", False],
                    ["formula_reuse", "T1", "H2O@1", op, "public"], ["formula_reuse", "public", "H2O@1", op, "T1"],
                    ["formula_reuse", "T1", "H2O@1", op, None]])
    # a customisation of T1 survives re-initialisation of the same group on another private table and
    # on the public table
    for target, atom, g in (("_mass", [26, 0, 0], "mass"), ("_density", [26, 0, 0], "density"),
                            ("covalent_radius", [26, 0, 0], "covalent_radius"), ("K_alpha", [29, 0, 0], "emission"),
                            ("crystal_structure_inplace", [26, 0, 0], "crystal_structure"),
                            ("neutron_field", [26, 0, 0], "neutron"), ("neutron_assign", [26, 56, 0], "neutron"),
                            ("nsf_table_inplace", [64, 0, 0], "neutron"), ("magnetic_ff_field", [26, 0, 0], "magnetic_ff"),
                            ("activation_row_field", [27, 59, 0], "activation"), ("xray_newfield", [26, 0, 0], "xray"),
                            ("xray_sftable_inplace", [26, 0, 0], "xray"), ("xray_sftable_inplace", [26, 0, 2], "xray")):
        out.append(two + [["mutate", "T1", atom, target], ["init", "T2", g, True], ["readback", "T1", atom, target],
                          ["init", "public", g, True], ["readback", "T1", atom, target],
                          ["newtable", "T3"], ["init", "T3", "mass", False], ["init", "T3", "density", False],
                          ["init", "T3", g, False], ["readback", "T1", atom, target]])
        out.append(two + [["mutate", "public", atom, target], ["init", "T2", g, True], ["readback", "public", atom, target]])
    # the caller edits its own Formula in place; the same string parsed for another table must not follow
    for op in ("own_iadd", "own_density", "own_name", "own_change_table"):
        for text in ("H2O@1", " ", "5wt% NaCl // H2O"):
            out.append([["newtable", "T1"], ["init", "T1", "mass", False], ["init", "T1", "density", False],
                        ["newtable", "T2"], ["init", "T2", "mass", False], ["init", "T2", "density", False],
                        ["formula_reuse", "T1", text, op, "T2"], ["formula_reuse", "T1", text, op, None],
                        ["formula_reuse", "public", text, op, "T1"]])
    # symmetric isolation: the public table is customised after / before a private table is built
    for target, atom in (("_mass", [1, 0, 0]), ("_density", [26, 0, 0]), ("crystal_structure_inplace", [26, 0, 0]),
                         ("neutron_field", [26, 0, 0]), ("xray_sftable_inplace", [26, 0, 0]),
                         ("magnetic_ff_field", [26, 0, 0]), ("activation_row_field", [27, 59, 0]),
                         ("covalent_radius", [26, 0, 0]), ("K_alpha", [29, 0, 0])):
        out.append(full + [["mutate", "public", atom, target]])
        out.append([["mutate", "public", atom, target]] + full)
    # stale derived state: modify T1, reload one group of T1, then build T2 from scratch
    for target, atom in (("_density", [26, 0, 0]), ("_mass", [28, 0, 0])):
        for g in M.GROUPS9:
            out.append(full + [["mutate", "T1", atom, target], ["init", "T1", g, True], ["newtable", "T2"]] +
                       [["init", "T2", gg, False] for gg in ["mass", "density", "neutron", "xray", "emission",
                                                            "covalent_radius", "crystal_structure", "magnetic_ff",
                                                            "activation"]])
    # the triggers of the open known findings, so that they are exercised (and attributed) every batch
    out.append(full + [["mutate", "T1", [85, 0, 0], "neutron_field_dataless"]])
    out.append([["newtable", "T1"], ["formula", "T1", "aa:AVG", "str"]])
    _STRATA = out
    return out
