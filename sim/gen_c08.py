"""History generator for C08: identity caches, registry and pickling across 1-2 interpreters."""
import random

from . import events as E

TABLE_ATTRS = ["symbol", "name", "isotope", "list", "_element", "properties", "__class__", "__dict__"]
BAD_SYMBOLS = ["Xx", "fe", "FE", "Fee", "", "h", "Uuo", "d", "t", "N2", "symbol", "name", "list",
               "_element", "properties", "isotope", "Ph", "Zz", "Dd"]
BAD_NAMES = ["Iron", "IRON", "ferrum", "", "Fe", "Deuterium", "hydrogen2", "neutronn"]
BAD_ISOSTR = ["4-D", "2-D", "1-H-1", "x-H", "H-", "-Fe", "56-fe", "56-Xx", "999-Fe", "57-", "-",
              "--", "56--Fe", "56.0-Fe", "1e1-Ne", "3-T", "Fe-56", "-1-H", "56-symbol", "2-list"]
PROTOS = [0, 1, 2, 3, 4, 5]


def atom_symbol(V, Z):
    return V.els[Z]["symbol"]


def valid_lookup(rng, V, tbl, isotopes_ok=True):
    """A lookup by a seeded route together with the key [Z, A, q] it denotes."""
    while True:
        route = rng.choice(["Z", "symbol", "attr", "name", "isostr", "modattr", "iso", "ion", "isoion",
                            "iterpos", "ionattr", "isoel", "special", "elements_attr"])
        a = V.atom(rng, "el")
        Z = a[0]
        e = V.els[Z]
        sym, name = e["symbol"], e["name"]
        def eq(k):
            # now and then a key of another type that compares and hashes equal (26.0, numpy.int64(26))
            return [rng.choice(["f", "np", "np32"]), k] if rng.random() < 0.12 else k
        if route == "Z":
            return ["lookup", tbl, "Z", eq(Z), [Z, 0, 0]]
        if route == "symbol":
            return ["lookup", tbl, "symbol", sym, [Z, 0, 0]]
        if route == "attr":
            return ["lookup", tbl, "attr", sym, [Z, 0, 0]]
        if route == "name":
            return ["lookup", tbl, "name", name, [Z, 0, 0]]
        if route == "modattr":
            if tbl != "public":
                continue
            return ["lookup", tbl, "modattr", rng.choice([sym, name]), [Z, 0, 0]]
        if route == "elements_attr":
            if tbl != "public":
                continue
            return ["lookup", tbl, "elements_attr", sym, [Z, 0, 0]]
        if route == "special":
            k = rng.choice([("symbol", "D", 2), ("symbol", "T", 3), ("attr", "D", 2), ("attr", "T", 3),
                            ("name", "deuterium", 2), ("name", "tritium", 3), ("isostr", "D", 2),
                            ("isostr", "T", 3), ("isostr", "2-H", 2), ("isostr", "3-H", 3), ("iso", [1, 2], 2),
                            ("modattr", "D", 2), ("modattr", "tritium", 3), ("modattr", "deuterium", 2),
                            ("isostr", "n", 0), ("name", "neutron", 0), ("Z", 0, 0)])
            if k[0] == "modattr" and tbl != "public":
                continue
            if k[1] in ("n", "neutron") or k[0] == "Z":
                return ["lookup", tbl, k[0], k[1], [0, 0, 0]]
            return ["lookup", tbl, k[0], k[1], [1, k[2], 0]]
        if route == "isostr" and (not isotopes_ok or rng.random() < 0.3):
            return ["lookup", tbl, "isostr", sym, [Z, 0, 0]]
        if route in ("isostr", "iso", "isoion", "iterpos", "isoel") and (not isotopes_ok or not e["isotopes"]):
            continue
        if route == "isostr":
            A = rng.choice(e["isotopes"])
            s = "%d-%s" % (A, sym)
            return ["lookup", tbl, "isostr", s, [Z, A, 0]]
        if route == "iso":
            A = rng.choice(e["isotopes"])
            return ["lookup", tbl, "iso", [Z, eq(A)], [Z, A, 0]]
        if route == "isoel":
            A = rng.choice(e["isotopes"])
            return ["lookup", tbl, "isoel", [Z, A], [Z, 0, 0]]
        if route == "iterpos":
            if rng.random() < 0.5:
                return ["lookup", tbl, "iterpos", [None, V.Z.index(Z)], [Z, 0, 0]]
            pos = rng.randrange(len(e["isotopes"]))
            return ["lookup", tbl, "iterpos", [Z, pos], [Z, e["isotopes"][pos], 0]]
        if not e["ions"]:
            continue
        q = rng.choice(e["ions"])
        if route == "ion":
            return ["lookup", tbl, "ion", [Z, eq(q)], [Z, 0, q]]
        if route == "ionattr":
            return ["lookup", tbl, "ionattr", [Z, q], [Z, 0, 0]]
        if route == "isoion":
            A = rng.choice(e["isotopes"])
            return ["lookup", tbl, "isoion", [Z, eq(A), eq(q)], [Z, A, q]]


def bad_lookup(rng, V, tbl, isotopes_ok=True):
    """An invalid neighbour of a valid key: must raise and leave the caches unchanged."""
    while True:
        route = rng.choice(["Z", "symbol", "attr", "name", "isostr", "modattr", "iso", "ion", "isoion"])
        a = V.atom(rng, "el")
        Z = a[0]
        e = V.els[Z]
        sym = e["symbol"]
        if route == "Z":
            return ["badkey", tbl, "Z", rng.choice([-1, 119, 120, 1000, "1", "Fe", None, 1.5])]
        if route == "symbol":
            return ["badkey", tbl, "symbol", rng.choice(BAD_SYMBOLS + [sym.lower() if len(sym) > 1 else sym + "x",
                                                                    sym.upper() if len(sym) > 1 else sym + "q",
                                                                    e["name"]])]
        if route == "attr":
            # (an element NAME as a table attribute is left out: a tree may legitimately offer
            # table.iron next to periodictable.iron; names stay invalid for symbol() and isotope())
            s = rng.choice([x for x in BAD_SYMBOLS if x and x not in TABLE_ATTRS] + [sym + "x"])
            return ["badkey", tbl, "attr", s]
        if route == "name":
            return ["badkey", tbl, "name", rng.choice(BAD_NAMES + [sym, e["name"].capitalize(), e["name"] + "s"])]
        if route == "modattr":
            if tbl != "public":
                continue
            return ["badkey", tbl, "modattr", rng.choice(["Xx", "fe", "Iron", "Dd", "Uuo", sym + "x"])]
        if route == "isostr":
            if rng.random() < 0.15:
                A = rng.choice(e["isotopes"]) if isotopes_ok and e["isotopes"] else 1
                return ["badkey", tbl, "isostr", rng.choice([e["name"], "%d-%s" % (A, e["name"])])]
            if rng.random() < 0.5 or not isotopes_ok or not e["isotopes"]:
                return ["badkey", tbl, "isostr", rng.choice(BAD_ISOSTR)]
            As = e["isotopes"]
            A = rng.choice([As[0] - 1, As[-1] + 1, As[-1] + 50, 1000])
            if A in As or A <= 0:
                continue
            return ["badkey", tbl, "isostr", "%d-%s" % (A, sym)]
        if route == "iso":
            As = e["isotopes"] if isotopes_ok else []
            A = rng.choice([(As[0] - 1) if As else 5, (As[-1] + 1) if As else 7, 1000, -1, "56", None])
            if A in As or A == 0:
                continue
            if Z == 1 and A in (2, 3):
                continue
            return ["badkey", tbl, "iso", [Z, A]]
        if route == "ion":
            q = rng.choice([0, 9, -9, 12, "2", None, 100])
            if q in e["ions"]:
                continue
            return ["badkey", tbl, "ion", [Z, q]]
        if route == "isoion":
            if not isotopes_ok or not e["isotopes"]:
                continue
            q = rng.choice([0, 9, -9, 12])
            if q in e["ions"]:
                continue
            return ["badkey", tbl, "isoion", [Z, rng.choice(e["isotopes"]), q]]


def strata(V):
    """Fixed prefixes so that the exhaustive clause does not depend on luck: a full deep sweep
    (every atom, every route, pickle and deepcopy of every isotope ion) of a fresh public table,
    of a private table, of both after lazy loads, and of a second interpreter."""
    allz = None
    full9 = [["init", "T1", g, False] for g in ["mass", "density", "neutron", "xray", "emission",
                                               "covalent_radius", "crystal_structure", "magnetic_ff", "activation"]]
    return [
        [[0, ["sweep", "public", allz, True]]],
        [[0, ["newtable", "T1"]], [0, ["init", "T1", "mass", False]], [0, ["sweep", "T1", allz, True]],
         [0, ["sweep", "public", allz, False]]],
        [[0, ["newtable", "T1"]], [0, ["sweep", "T1", allz, True]], [0, ["init", "T1", "mass", False]],
         [0, ["sweep", "T1", allz, True]]],
        [[0, ["probe", "public", [26, 0, 0], "dirsweep"]], [0, ["probe", "public", [26, 56, 2], "dirsweep"]],
         [0, ["sweep", "public", allz, True]]],
        [[0, ["newtable", "T1"]]] + [[0, e] for e in full9] + [[0, ["sweep", "T1", allz, True]],
                                                             [0, ["sweep", "public", allz, True]]],
        [[0, ["newtable", "T1"]], [0, ["init", "T1", "mass", False]], [1, ["newtable", "T1"]],
         [1, ["init", "T1", "mass", False]], [0, ["dump", 1, "T1", [26, 56, 2], 2]], [1, ["load", 1, "T1", [26, 56, 2]]],
         [1, ["sweep", "T1", allz, True]], [1, ["sweep", "public", allz, False]]],
        [[0, ["newtable", "T1"]], [0, ["newtable", "T2"]], [0, ["init", "T2", "mass", False]],
         [0, ["init", "T1", "mass", False]], [0, ["sweep", "T2", allz, False]], [0, ["sweep", "T1", allz, False]]],
        # an ion set / a whole table pickled, another ion used, the pickle restored
        [[0, ["pickle_whole", "public", [26, 0, 0], 3, "ionset", "pickle:2"]],
         [0, ["pickle_whole", "public", [8, 18, 0], -2, "ionset", "pickle:4"]],
         [0, ["pickle_whole", "public", [29, 0, 0], 2, "table", "pickle:2"]],
         [0, ["newtable", "T1"]], [0, ["init", "T1", "mass", False]],
         [0, ["pickle_whole", "T1", [28, 58, 0], 2, "ionset", "pickle:2"]],
         [0, ["pickle_whole", "T1", [28, 0, 0], 3, "table", "deepcopy"]],
         [0, ["sweep", "T1", [0, 1, 26, 28], False]], [0, ["sweep", "public", [0, 1, 8, 26, 29], False]]],
        # a table exported into a namespace that already holds another table's names
        [[0, ["newtable", "T1"]], [0, ["define_elements", "T1", "public"]], [0, ["define_elements", "public", "T1"]],
         [0, ["define_elements", "T1", None]], [0, ["define_elements", "public", None]]],
        # an iteration still running while an isotope is inserted / the mass loader runs
        [[0, ["iter_interleaved", "public", 8, 2, "add_isotope", 11]], [0, ["iter", "public", 8]],
         [0, ["newtable", "T1"]], [0, ["iter_interleaved", "T1", 1, 1, "init_mass", False]],
         [0, ["iter_interleaved", "T1", 26, 3, "add_isotope", 44]], [0, ["iter", "T1", 26]],
         [0, ["iter_interleaved", "public", None, 5, "add_isotope", 300]]],
        # the caller edits, in place, the lists it was handed
        [[0, ["owned_result", "public", 26, "isotopes", "reverse"]], [0, ["iter", "public", 26]],
         [0, ["owned_result", "public", 8, "isotopes", "clear"]], [0, ["iter", "public", 8]],
         [0, ["owned_result", "public", 29, "ions", "clear"]], [0, ["owned_result", "public", 1, "isotopes", "append"]],
         [0, ["newtable", "T1"]], [0, ["init", "T1", "mass", False]],
         [0, ["owned_result", "T1", 28, "isotopes", "pop"]], [0, ["iter", "T1", 28]],
         [0, ["owned_result", "T1", 28, "ions", "reverse"]], [0, ["sweep", "T1", [1, 8, 28], False]]],
        # a helper builds a table, returns atoms and drops the table object
        [[0, ["newtable", "T1"]], [0, ["init", "T1", "mass", False]],
         [0, ["drop_handle", "T1", [[26, 56, 2], [1, 2, 0], [8, 0, 0]]]],
         [0, ["roundtrip_kept", "T1", 0, "pickle:2"]], [0, ["roundtrip_kept", "T1", 1, "deepcopy"]],
         [0, ["roundtrip_kept", "T1", 2, "pickle:0"]], [0, ["newtable", "T1"]],
         [0, ["roundtrip_kept", "T1", 0, "pickle:4"]], [0, ["sweep", "T1", [0, 1, 8, 26], False]]],
    ]


def gen(seed, V, tier, index, bias=None):
    st = strata(V)
    if index < len(st):
        return {"prop": "C08", "seed": seed, "index": index, "cfg": {"stratum": index, "families": []},
                "events": [list(map(lambda x: x, e)) for e in st[index]]}
    rng = random.Random(seed)
    fam = {f: rng.random() < p for f, p in (
        ("lookup", 0.8), ("badkey", 0.6), ("roundtrip", 0.5), ("container", 0.3), ("iter", 0.3),
        ("private", 0.6), ("exchange", 0.45), ("add_isotope", 0.3), ("lazy", 0.4), ("sweep", 0.5),
        ("change", 0.3))}
    names = ["T1", "T2"]
    two_nodes = fam["exchange"] and rng.random() < 0.7
    cfg = {"families": sorted(f for f, on in fam.items() if on), "two_nodes": two_nodes}
    nodes = [0, 1] if two_nodes else [0]
    # per node: which private tables exist and whether their isotopes exist (predicted)
    have = {n: {} for n in nodes}
    dropped = {n: {} for n in nodes}
    added = {}
    evs = []
    msg = 0
    outbox = []      # (msgid, tbl, ref) waiting for delivery
    n_ev = rng.choice([4, 8, 12, 20, 30])
    deep = tier == "thorough"

    def tables_of(n, need_mass=False):
        out = ["public"]
        for t, m in have[n].items():
            if not need_mass or m:
                out.append(t)
        return out

    def pick_atom(n, t):
        a = V.atom(rng)
        if t != "public" and not have[n].get(t):
            if not (a[0] == 1 and a[1] in (2, 3)):
                a[1] = 0
        return a

    spins = 0
    while len(evs) < n_ev:
        spins += 1
        if spins > 4 * n_ev:
            # families that are switched off made no progress: fall back to plain lookups
            evs.append([rng.choice(nodes), valid_lookup(rng, V, "public", True)])
            continue
        n = rng.choice(nodes)
        r = rng.random()
        t = rng.choice(tables_of(n))
        iso_ok = t == "public" or bool(have[n].get(t))
        if fam["private"] and r < 0.10:
            name = rng.choice(names)
            evs.append([n, ["newtable", name]])             # may be a duplicate: must raise
            have[n].setdefault(name, False)
            if rng.random() < 0.6:
                evs.append([n, ["init", name, "mass", False]])
                have[n][name] = True
            if rng.random() < 0.3 and name not in dropped[n]:
                # the caller keeps a few atoms and lets go of the table object
                refs = [pick_atom(n, name) for _ in range(3)]
                evs.append([n, ["drop_handle", name, refs]])
                dropped[n][name] = len(refs)
        elif dropped[n] and r < 0.12:
            name = rng.choice(sorted(dropped[n]))
            evs.append([n, ["roundtrip_kept", name, rng.randrange(dropped[n][name]),
                            rng.choice(["deepcopy", "copy"] + ["pickle:%d" % p for p in PROTOS])]])
        elif fam["private"] and r < 0.14:
            tt = rng.choice(tables_of(n))
            g = rng.choice(E.INIT_GROUPS)
            evs.append([n, ["init", tt, g, rng.random() < 0.2]])
            if g == "mass" and tt != "public":
                have[n][tt] = True
        elif fam["lookup"] and r < 0.40:
            evs.append([n, valid_lookup(rng, V, t, iso_ok)])
        elif fam["badkey"] and r < 0.55:
            if rng.random() < 0.25:
                # a non-integral / string neighbour of a charge whose ion has just been created
                a = V.atom(rng, "ion" if not iso_ok or rng.random() < 0.6 else "isoion")
                if a[1]:
                    evs.append([n, ["lookup", t, "isoion", [a[0], a[1], a[2]], [a[0], a[1], a[2]]]])
                    evs.append([n, ["badkey", t, "isoion", [a[0], a[1], rng.choice([a[2] + 0.5, str(a[2]), a[2] - 0.25])]]])
                else:
                    evs.append([n, ["lookup", t, "ion", [a[0], a[2]], [a[0], 0, a[2]]]])
                    evs.append([n, ["badkey", t, "ion", [a[0], rng.choice([a[2] + 0.5, str(a[2]), a[2] - 0.25])]]])
            else:
                evs.append([n, bad_lookup(rng, V, t, iso_ok)])
        elif fam["roundtrip"] and r < 0.65:
            evs.append([n, ["roundtrip", t, pick_atom(n, t), rng.choice(["copy", "deepcopy"] + ["pickle:%d" % p for p in PROTOS])]])
        elif fam["roundtrip"] and r < 0.66 and rng.random() < 0.4:
            a = pick_atom(n, t)
            ions = V.els[a[0]]["ions"]
            if ions:
                evs.append([n, ["pickle_whole", t, [a[0], a[1], 0], rng.choice(ions), rng.choice(["ionset", "ionset", "table"]),
                                rng.choice(["deepcopy", "pickle:2", "pickle:4", "pickle:0"])]])
        elif fam["container"] and r < 0.70:
            refs = [pick_atom(n, t) for _ in range(rng.choice([2, 3, 5]))]
            refs += [refs[0]]
            evs.append([n, ["container", t, refs, rng.choice(["deepcopy", "pickle:2", "pickle:4", "pickle:5"])]])
        elif fam["lookup"] and r < 0.42 and rng.random() < 0.5:
            evs.append([n, ["define_elements", t, rng.choice([None] + tables_of(n))]])
        elif fam["iter"] and r < 0.75 and rng.random() < 0.35:
            # an iteration still being consumed while an isotope is added / a loader runs
            Z = rng.choice([z for z in V.Z if V.els[z]["isotopes"]])
            As = V.els[Z]["isotopes"]
            what = rng.choice(["add_isotope", "add_isotope", "init_mass", "lookup"])
            if what == "add_isotope":
                arg = rng.choice([As[0] - 1, As[-1] + 1, As[len(As) // 2], 400])
                if arg <= 0:
                    arg = 400
                added.setdefault((n, t, Z), set()).add(arg)
            elif what == "init_mass":
                arg = rng.random() < 0.5
                if t != "public":
                    have[n][t] = True
            else:
                arg = V.els[Z]["symbol"]
            evs.append([n, ["iter_interleaved", t, Z if rng.random() < 0.85 else None, rng.choice([0, 1, 2, 5]), what, arg]])
        elif fam["iter"] and r < 0.75 and rng.random() < 0.25:
            # the caller edits, in place, a list the table handed out; lookups and iteration must not follow
            Z = rng.choice([z for z in V.Z if V.els[z]["isotopes"]])
            evs.append([n, ["owned_result", t, Z, rng.choice(["isotopes", "ions"]), rng.choice(["reverse", "clear", "pop", "append"])]])
            evs.append([n, ["iter", t, Z]])
            if iso_ok and rng.random() < 0.5:
                A = rng.choice(V.els[Z]["isotopes"])
                evs.append([n, ["lookup", t, "isostr", "%d-%s" % (A, V.els[Z]["symbol"]), [Z, A, 0]]])
        elif fam["iter"] and r < 0.75:
            Z = None if rng.random() < 0.3 else rng.choice(V.Z)
            evs.append([n, ["iter", t, Z]])
        elif fam["exchange"] and r < 0.85:
            msg += 1
            a = pick_atom(n, t)
            if rng.random() < 0.2:
                refs = [pick_atom(n, t) for _ in range(3)]
                evs.append([n, ["dump_container", msg, t, refs, rng.choice(PROTOS)]])
                outbox.append((msg, t, refs, True))
            else:
                evs.append([n, ["dump", msg, t, a, rng.choice(PROTOS)]])
                outbox.append((msg, t, a, False))
        elif fam["add_isotope"] and r < 0.88:
            Z = rng.choice(V.Z)
            As = V.els[Z]["isotopes"]
            A = rng.choice([(As[0] - 1) if As else 1, (As[-1] + 2) if As else 9, 500, (As[len(As) // 2]) if As else 3])
            if A > 0:
                evs.append([n, ["add_isotope", t, Z, A]])
                added.setdefault((n, t, Z), set()).add(A)
                if rng.random() < 0.7:
                    evs.append([n, ["iter", t, Z]])
                if rng.random() < 0.5:
                    evs.append([n, ["lookup", t, "iso", [Z, A], [Z, A, 0]]])
        elif fam["lazy"] and r < 0.92:
            evs.append([n, E.gen_read(rng, V)])
        elif fam["change"] and r < 0.95 and len(tables_of(n)) > 1:
            src, dst = rng.choice(tables_of(n)), rng.choice(tables_of(n))
            a = pick_atom(n, src)
            if a[1] and dst != "public" and not have[n].get(dst) and not (a[0] == 1 and a[1] in (2, 3)):
                a[1] = 0
            evs.append([n, ["change_to", src, a, dst]])
        elif fam["sweep"] and r < 0.98:
            zs = None if deep and rng.random() < 0.3 else sorted(rng.sample(V.Z, 8) + [0, 1])
            evs.append([n, ["sweep", t, zs, deep]])
        elif fam["exchange"] and r < 0.995 and rng.random() < 0.3:
            evs.append([n, ["restart"]])
            have[n] = {}
            dropped[n] = {}
            for k in [k for k in added if k[0] == n]:
                del added[k]
        # deliveries: seeded delay, reordering, duplication; to the other node or back to the sender
        if outbox and rng.random() < 0.5:
            rng.shuffle(outbox)
            m, mt, ref, is_cont = outbox.pop()
            dst = rng.choice(nodes)
            ev = ["load", m, mt, ref]
            evs.append([dst, ev])
            if rng.random() < 0.2:
                evs.append([rng.choice(nodes), list(ev)])
    for m, mt, ref, is_cont in outbox:
        evs.append([rng.choice(nodes), ["load", m, mt, ref]])
    # final sweeps: every run ends with an invariant sweep of every table on every node
    for n in nodes:
        for t in tables_of(n):
            zs = None if deep and rng.random() < 0.5 else sorted(set(rng.sample(V.Z, 10) + [0, 1, 26]))
            evs.append([n, ["sweep", t, zs, deep and rng.random() < 0.3]])
    nm = E.name_map(seed)
    if nm:
        cfg["names"] = nm
    return {"prop": "C08", "seed": seed, "index": index, "cfg": cfg, "events": evs}
