"""History generator for C08 (identity)."""


def gen(seed, V, tier, index, bias=None):
    raise NotImplementedError
