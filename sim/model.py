"""Executable reference model of the loader (DESIGN 3.3, 3.5, Appendix A).

Two uses: (a) *prediction* at generation time, to place faults ("init of a
private table while the public group is still pending"); (b) *claim
bookkeeping* at judge time, from the real outcomes of the events: which keys
of a private table may be compared with the public table.
"""
from . import events as E

GROUPS9 = ["mass", "density", "neutron", "xray", "emission", "covalent_radius",
           "crystal_structure", "magnetic_ff", "activation"]

# what must be initialised (and untainted) on T before a digest group of T is claimed
PREREQ = {
    "base": set(),
    "mass": {"mass"},
    "density": {"mass", "density"},
    "covalent_radius": {"covalent_radius"},
    "crystal_structure": {"crystal_structure"},
    "neutron": {"mass", "density", "neutron"},
    "activation": {"mass", "activation"},
    "xray": {"mass", "density", "xray"},
    "emission": {"emission"},
    "magnetic_ff": {"magnetic_ff"},
    "routes": {"mass", "covalent_radius", "crystal_structure", "emission", "magnetic_ff"},
    "calc": set(GROUPS9),
}
# what the real init() needs in order not to raise (documented by its own asserts / lookups)
INIT_NEEDS = {"neutron": {"mass", "density"}, "activation": {"mass"}}

MUTATE_GROUP = {
    "_mass": "mass", "_abundance": "mass", "add_isotope": "mass", "_mass_unc": "mass", "_abundance_unc": "mass",
    "_density": "density", "density_caveat": "density",
    "covalent_radius": "covalent_radius", "covalent_radius_uncertainty": "covalent_radius",
    "K_alpha": "emission", "K_beta1": "emission",
    "crystal_structure_assign": "crystal_structure", "crystal_structure_inplace": "crystal_structure",
    "neutron_assign": "neutron", "neutron_field": "neutron", "neutron_field_dataless": "neutron",
    "nsf_table_inplace": "neutron", "nuclear_spin": "neutron",
    "magnetic_ff_field": "magnetic_ff", "magnetic_ff_dict": "magnetic_ff", "magnetic_ff_assign": "magnetic_ff",
    "activation_row_field": "activation", "activation_list": "activation", "activation_assign": "activation",
    "xray_newfield": "xray", "xray_sftable_inplace": "xray",
}
# in-place mutations only make sense on data T owns, i.e. after the group was initialised on T
INPLACE = {"crystal_structure_inplace", "neutron_field", "neutron_field_dataless", "nsf_table_inplace",
           "magnetic_ff_field", "magnetic_ff_dict", "activation_row_field", "activation_list",
           "xray_newfield", "xray_sftable_inplace"}


def dependents(g):
    return {k for k, need in PREREQ.items() if g in need}


def is_private_event(ev):
    """Does the event involve a private table (removed in the counterfactual history)?"""
    k = ev[0]
    if k == "newtable":
        return True
    if k in ("read", "probe", "init", "calc", "mutate", "mutate_walk", "formula", "mix", "calc_str", "readback"):
        return ev[1] != "public"
    if k in ("change_table", "change_atom"):
        return ev[1] != "public" or ev[3] != "public"
    if k == "formula_reuse":
        return ev[1] != "public" or ev[4] not in ("public", None)
    if k in ("dump", "dump_formula"):
        return ev[2] != "public"
    if k == "load":
        return len(ev) > 2 and ev[2] != "public"
    return False


def private_tables_of(ev):
    """Names of the private tables an event involves."""
    k = ev[0]
    names = []
    if k == "newtable":
        names = [ev[1]]
    elif k in ("read", "probe", "init", "calc", "mutate", "mutate_walk", "formula", "mix", "calc_str", "readback"):
        names = [ev[1]]
    elif k in ("change_table", "change_atom"):
        names = [ev[1], ev[3]]
    elif k == "formula_reuse":
        names = [ev[1], ev[4]]
    elif k in ("dump", "dump_formula"):
        names = [ev[2]]
    elif k == "load" and len(ev) > 2:
        names = [ev[2]]
    return {n for n in names if n not in ("public", None)}


class Claims(object):
    """Status of every (private table, group) from the *observed* outcomes."""

    def __init__(self):
        self.status = {}     # (tbl, g) -> uninit | init_ok | failed
        self.tainted = set()
        self.public_tainted = set()     # (node, group) of the public table edited by a mutator
        self.failed_before = set()
        self.tables = {}     # name -> node id

    def feed(self, nid, ev, outcome):
        k = ev[0]
        ok = outcome == "ok"
        if k == "newtable":
            tn = tname(nid, ev[1])
            if ok and tn not in self.tables:
                self.tables[tn] = nid
                for g in GROUPS9:
                    self.status[(tn, g)] = "uninit"
        elif k == "restart":
            for name in [t for t, n in self.tables.items() if n == nid]:
                del self.tables[name]
                for g in GROUPS9:
                    self.status.pop((name, g), None)
                self.tainted = {x for x in self.tainted if x[0] != name}
                self.failed_before = {x for x in self.failed_before if x[0] != name}
        elif k == "init" and ev[1] != "public" and tname(nid, ev[1]) in self.tables:
            key = (tname(nid, ev[1]), ev[2])
            if ok:
                # a successful init is only claimed if what it needs was there when it ran
                # (otherwise "returned normally" says nothing about the data)
                self.status[key] = "init_ok"
            else:
                if self.status.get(key) != "init_ok":
                    self.status[key] = "failed"
                    self.failed_before.add(key)
                else:
                    # a reload that raised half way: nothing is claimed any more
                    self.tainted.add(key)
        elif k in ("mutate", "mutate_walk") and ev[1] != "public":
            g = MUTATE_GROUP.get(ev[3]) if k == "mutate" else ev[2]
            if g:
                self.taint(tname(nid, ev[1]), g)
        elif k in ("mutate", "mutate_walk") and ev[1] == "public":
            # the user customised the public table: from now on "equal to the public table" is
            # judged against the canonical values only (a private table must NOT follow the edit)
            g = MUTATE_GROUP.get(ev[3]) if k == "mutate" else ev[2]
            if g:
                self.public_tainted.add((nid, g))
                for d in dependents(g):
                    self.public_tainted.add((nid, d))
                self.public_tainted.add((nid, "calc_public"))

    def taint(self, tbl, g):
        self.tainted.add((tbl, g))
        for d in dependents(g):
            self.tainted.add((tbl, d))

    def initialised(self, tbl):
        """Groups whose prerequisites were all initialised on tbl, customised or not."""
        return [g for g in E.PUBLIC_GROUPS if g in PREREQ
                and all(self.status.get((tbl, n)) == "init_ok" for n in PREREQ[g])]

    def claimed(self, tbl):
        out = []
        for g, need in PREREQ.items():
            if all(self.status.get((tbl, n)) == "init_ok" for n in need) and (tbl, g) not in self.tainted \
                    and not any((tbl, n) in self.tainted for n in need):
                out.append(g)
        return [g for g in E.PUBLIC_GROUPS if g in out]


def tname(nid, tbl):
    """Claims are per (node, table): the same name may exist in two interpreters."""
    return tbl if nid == 0 else "%s@%d" % (tbl, nid)


def real_name(tn):
    return tn.split("@")[0]


def claims_of(run, outcomes):
    c = Claims()
    for (nid, ev), out in zip(run["events"], outcomes):
        c.feed(nid, ev, out)
    return c


# ---------------------------------------------------------------- prediction (generation time)
CALC_TOUCH = {
    "nscat": ["neutron"], "nsld": ["neutron"], "d2o_match": ["neutron"], "nsld_table": ["neutron"],
    "nsf_tables": ["neutron"], "fasta_const": ["neutron"], "xsld": ["xray"], "f0": ["xray"],
    "xsld_table": ["xray", "emission"], "volume": ["covalent_radius"], "activation": ["activation"],
    "emission_table": ["emission"], "mff": ["magnetic_ff"], "mass": [],
    "refraction": ["xray"], "composite": ["neutron"], "d2o_sld": ["neutron"], "fasta_seq": ["neutron"],
    "formula_methods": ["neutron", "xray"], "show_table": ["activation"], "iadd": [], "new_isotope": [], "cromermann": [],
}


class Predict(object):
    def __init__(self):
        self.pub_pending = set(E.LAZY_GROUPS)
        self.tprops = {}        # table -> set of groups predicted initialised
        self.tfailed = {}

    def touches(self, ev):
        k = ev[0]
        if k == "read":
            g = E.NAME_GROUP.get(ev[3])
            if g is None:
                return []
            if ev[1] != "public" and g in self.tprops.get(ev[1], ()):
                return []
            if g == "activation" or ev[3] == "nuclear_spin":
                return [g] if ev[2][1] else []
            return [g]
        if k == "calc":
            if ev[2] == "list":
                return sorted({E.NAME_GROUP[p] for p in ev[3] if p in E.NAME_GROUP})
            return CALC_TOUCH.get(ev[2], [])
        if k == "calc_str":
            return ["neutron"]
        if k == "import":
            return ["neutron"] if ev[1] == "periodictable.fasta" else []
        if k == "init":
            if ev[1] == "public":
                return [ev[2]] if ev[2] in E.LAZY_GROUPS else []
            return [ev[2]] if ev[2] in E.LAZY_GROUPS else []
        if k == "probe" and ev[3] in ("getmembers", "dirsweep"):
            # dir() of an atom lists the class attributes of its own class only
            Z, A, q = ev[2]
            if q:
                return ["xray"]
            if A:
                return ["neutron", "activation"]
            return [g for g in E.LAZY_GROUPS if g != "activation"]
        if k == "mutate":
            g = MUTATE_GROUP.get(ev[3])
            return [g] if g in E.LAZY_GROUPS else []
        return []

    def feed(self, ev):
        k = ev[0]
        fired = None
        if k == "newtable":
            self.tprops.setdefault(ev[1], set())
        elif k == "init" and ev[1] != "public":
            t, g = ev[1], ev[2]
            props = self.tprops.setdefault(t, set())
            need = INIT_NEEDS.get(g, set())
            if need <= props:
                if g in self.pub_pending:
                    fired = "private_init_while_public_pending"
                if g in self.tfailed.get(t, ()):
                    fired = "retry_after_failed_init"
                props.add(g)
            else:
                self.tfailed.setdefault(t, set()).add(g)
                fired = "fail_op_missing_prerequisite"
        for g in self.touches(ev):
            self.pub_pending.discard(g)
        return fired
