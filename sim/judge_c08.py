"""Oracles for C08: a dictionary model of which object every key denotes, per node
and table, checked event by event (DESIGN 5/C08).  The oracle is absolute: the
object returned must carry the key that was asked for, and every key resolves
to one object for the life of the interpreter."""
import json

from . import events as E


def finish(W, run, trace, nodes, node):
    trace["digest"] = {}
    fps = {}
    for nid in sorted(nodes):
        ((fp, _),) = nodes[nid].call("batch", [["fingerprint"]], False)
        fps[str(nid)] = fp
    trace["digest_fp"] = {k: (repr(sorted(v.items()) if isinstance(v, dict) else v), None) for k, v in fps.items()}
    trace["final_abstract"] = {nid: nodes[nid].call("abstract") for nid in sorted(nodes)}


class NodeModel(object):
    def __init__(self, V):
        self.V = V
        self.tables = {"public": True}     # name -> isotopes of mass.init present
        self.added = {}                    # (tbl, Z) -> set(A)
        self.reg = {}                      # (tbl, Z, A, q) -> registry index
        self.kept = {}                     # table whose handle was dropped -> atoms the caller kept

    def isotopes(self, tbl, Z):
        s = set()
        if self.tables.get(tbl):
            s |= set(self.V.els[Z]["isotopes"])
        if Z == 1:
            s |= {2, 3}
        s |= self.added.get((tbl, Z), set())
        return s

    def valid(self, tbl, ref):
        Z, A, q = ref
        if tbl not in self.tables or Z not in self.V.els:
            return False
        if A and A not in self.isotopes(tbl, Z):
            return False
        if q and q not in self.V.els[Z]["ions"]:
            return False
        return True


def expected_attrs(V, ref):
    Z, A, q = ref
    e = V.els[Z]
    sym, name = e["symbol"], e["name"]
    if Z == 1 and A == 2:
        sym, name = "D", "deuterium"
    if Z == 1 and A == 3:
        sym, name = "T", "tritium"
    out = {"number": Z, "symbol": sym, "name": name, "charge": q}
    if A:
        out["isotope"] = A
    return out


def is_err(out):
    return isinstance(out, list) and out[:1] == ["E"]


def judge(W, run, trace):
    V = W.vocab()
    viol = []
    models = {}
    fired = {}
    notes = {}
    msgs_ok = set()

    def bump(k):
        fired[k] = fired.get(k, 0) + 1

    if (run.get("cfg") or {}).get("names"):
        bump("unusual_table_names")

    def model(nid):
        if nid not in models:
            models[nid] = NodeModel(V)
        return models[nid]

    def v(i, group, kind, expected, observed, role="private"):
        viol.append({"oracle": "O-id", "role": role, "group": group, "kind": kind, "event": i,
                     "expected": expected, "observed": observed})

    def check_report(i, nid, tbl, ref, rep, group, same_flag=None):
        """rep is a node report for an object that must be (tbl, ref)."""
        m = model(nid)
        role = "public" if tbl == "public" else "private"
        if not isinstance(rep, dict) or "key" not in rep:
            v(i, group, "not_an_atom", [tbl] + list(ref), rep, role)
            return
        if rep["key"] != [tbl] + list(ref):
            v(i, group, "wrong_key", [tbl] + list(ref), rep, role)
            return
        exp = expected_attrs(V, ref)
        for n, val in exp.items():
            if rep.get(n) != val:
                v(i, group, "wrong_attr:" + n, exp, rep, role)
                return
        key = (tbl,) + tuple(ref)
        first = m.reg.setdefault(key, rep["reg"])
        if first != rep["reg"]:
            v(i, group, "second_object", {"reg": first}, rep, role)

    for i, (nid, ev) in enumerate(run["events"]):
        out = trace["outcomes"][i]
        k = ev[0]
        m = model(nid)
        if k == "restart":
            models[nid] = NodeModel(V)
            bump("restart")
            continue
        if k == "newtable":
            name = ev[1]
            if name in m.tables:
                bump("duplicate_table_name")
                if out == "ok":
                    v(i, "newtable", "no_exception", ["E", "ValueError"], out)
                    m.tables[name] = False
                    m.added = {kk: vv for kk, vv in m.added.items() if kk[0] != name}
                    m.reg = {kk: vv for kk, vv in m.reg.items() if kk[0] != name}
            elif out == "ok":
                m.tables[name] = False
            else:
                v(i, "newtable", "exception:" + out[1], "ok", out)
            continue
        if k == "init":
            if out == "ok" and ev[2] == "mass" and ev[1] in m.tables:
                m.tables[ev[1]] = True
            continue
        if k == "lookup":
            tbl, route, arg, ref = ev[1], ev[2], ev[3], ev[4]
            if tbl not in m.tables:
                continue
            valid = m.valid(tbl, ref)
            if route == "iterpos":
                # the position only denotes this key while nobody added isotopes/elements out of order
                if arg[0] is not None and m.added.get((tbl, arg[0])):
                    continue
                if not valid:
                    continue
            if not valid:
                if not is_err(out):
                    v(i, "lookup:" + route, "no_exception", ["E"], out)
                continue
            if is_err(out):
                if "\"f\"" in json.dumps(arg) or "\"np" in json.dumps(arg):
                    continue      # a key of another type that merely compares equal may be refused
                v(i, "lookup:" + route, "exception:" + out[1], [tbl] + ref, out,
                  "public" if tbl == "public" else "private")
                continue
            check_report(i, nid, tbl, ref, out, "lookup:" + route)
            continue
        if k == "badkey":
            tbl, route, arg = ev[1], ev[2], ev[3]
            if tbl not in m.tables:
                continue
            if badkey_is_valid(m, tbl, route, arg):
                continue
            bump("bad_key")
            role = "public" if tbl == "public" else "private"
            if is_err(out):
                v(i, "badkey:" + route, "harness", "dict", out, role)
            elif out.get("raised") is None:
                v(i, "badkey:" + route, "no_exception", {"raised": "some exception"}, out, role)
            elif not out.get("caches_unchanged"):
                v(i, "badkey:" + route, "cache_changed", {"caches_unchanged": True}, out, role)
            continue
        if k == "roundtrip":
            tbl, ref, how = ev[1], ev[2], ev[3]
            if not m.valid(tbl, ref):
                continue
            role = "public" if tbl == "public" else "private"
            if is_err(out):
                v(i, "roundtrip:" + how.split(":")[0], "exception:" + out[1], "same object", out, role)
                continue
            check_report(i, nid, tbl, ref, out, "roundtrip:" + how.split(":")[0])
            if not out.get("same") or out.get("orig") != out.get("reg"):
                v(i, "roundtrip:" + how.split(":")[0], "new_object", {"same": True}, out, role)
            continue
        if k == "drop_handle":
            name, refs = ev[1], ev[2]
            if name in m.tables and all(m.valid(name, r) for r in refs):
                if out == "ok":
                    m.kept[name] = refs
                    bump("table_handle_dropped")
                else:
                    v(i, "drop_handle", "exception:" + (out[1] if is_err(out) else "?"), "ok", out)
            continue
        if k == "roundtrip_kept":
            name, idx, how = ev[1], ev[2], ev[3]
            refs = m.kept.get(name)
            if not refs or name not in m.tables:
                continue
            ref = refs[idx]
            if is_err(out):
                v(i, "roundtrip_kept:" + how.split(":")[0], "exception:" + out[1], "same object", out)
                continue
            check_report(i, nid, name, ref, out, "roundtrip_kept:" + how.split(":")[0])
            if not out.get("same") or out.get("orig") != out.get("reg"):
                v(i, "roundtrip_kept:" + how.split(":")[0], "new_object", {"same": True}, out)
            continue
        if k == "container":
            tbl, refs, how = ev[1], ev[2], ev[3]
            if not all(m.valid(tbl, r) for r in refs):
                continue
            if is_err(out) or not out.get("same"):
                v(i, "container:" + how.split(":")[0], "new_object", {"same": True}, out,
                  "public" if tbl == "public" else "private")
            elif out.get("keys") != out.get("distinct") or out.get("set") != out.get("distinct"):
                v(i, "container:keys", "distinct_atoms_collide_as_keys", {"keys": out.get("distinct")}, out,
                  "public" if tbl == "public" else "private")
            continue
        if k == "iter":
            tbl, Z = ev[1], ev[2]
            if tbl not in m.tables:
                continue
            exp = sorted(V.Z) if Z is None else sorted(m.isotopes(tbl, Z))
            role = "public" if tbl == "public" else "private"
            if is_err(out) or out.get("nums") != exp or not out.get("same") or not out.get("distinct"):
                v(i, "iter", "wrong_order_or_members", {"nums": exp, "same": True, "distinct": True}, out, role)
            continue
        if k == "pickle_whole":
            tbl, ref, q = ev[1], ev[2], ev[3]
            key = [ref[0], ref[1], q]
            if not m.valid(tbl, key):
                continue
            role = "public" if tbl == "public" else "private"
            if is_err(out):
                v(i, "pickle_whole:" + ev[4], "exception:" + out[1], "same object", out, role)
                continue
            check_report(i, nid, tbl, key, out, "pickle_whole:" + ev[4])
            if not out.get("same"):
                v(i, "pickle_whole:" + ev[4], "new_object", {"same": True}, out, role)
            continue
        if k == "define_elements":
            tbl, prefill = ev[1], ev[2]
            if tbl not in m.tables or (prefill is not None and prefill not in m.tables):
                continue
            role = "public" if tbl == "public" else "private"
            if is_err(out):
                v(i, "define_elements", "exception:" + out[1], {"wrong": 0}, out, role)
            elif out.get("wrong"):
                v(i, "define_elements", "wrong_key", {"wrong": 0}, out, role)
            continue
        if k == "owned_result":
            tbl = ev[1]
            if tbl not in m.tables:
                continue
            if not is_err(out) and out.get("edited"):
                bump("caller_edits_returned_list")
            role = "public" if tbl == "public" else "private"
            if is_err(out):
                v(i, "owned_result:" + ev[3], "exception:" + out[1], "unchanged", out, role)
            elif out["after"] != out["before"] or not out["after"].get("routes"):
                v(i, "owned_result:" + ev[3], "served_list_follows_callers_edit", out["before"], out["after"], role)
            continue
        if k == "iter_interleaved":
            tbl, Z, what = ev[1], ev[2], ev[4]
            if tbl not in m.tables:
                continue
            role = "public" if tbl == "public" else "private"
            before = set(V.Z) if Z is None else set(m.isotopes(tbl, Z))
            if what == "add_isotope":
                m.added.setdefault((tbl, Z if Z is not None else 26), set()).add(ev[5])
                bump("add_isotope_during_iteration")
            elif what == "init_mass" and tbl != "public":
                m.tables[tbl] = True
            after = set(V.Z) if Z is None else set(m.isotopes(tbl, Z))
            if is_err(out):
                v(i, "iter_interleaved", "exception:" + out[1], "a list", out, role)
                continue
            # every member present from the start is visited exactly once, in increasing order;
            # members that appear while the loop runs are visited at most once
            nums = out.get("nums") or []
            ok = out.get("same") and out.get("increasing") and before <= set(nums) <= after
            if not ok:
                v(i, "iter_interleaved", "wrong_order_or_members",
                  {"superset_of": sorted(before), "subset_of": sorted(after), "increasing": True, "same": True}, out, role)
            continue
        if k == "add_isotope":
            tbl, Z, A = ev[1], ev[2], ev[3]
            if tbl not in m.tables:
                continue
            if A not in m.isotopes(tbl, Z):
                bump("add_isotope_out_of_order")
            m.added.setdefault((tbl, Z), set()).add(A)
            if is_err(out):
                v(i, "add_isotope", "exception:" + out[1], "report", out)
            else:
                check_report(i, nid, tbl, [Z, A, 0], out, "add_isotope")
            continue
        if k in ("dump", "dump_container"):
            if not is_err(out):
                msgs_ok.add(ev[1])
            continue
        if k == "load":
            msgid, tbl, ref = ev[1], ev[2], ev[3]
            if msgid not in msgs_ok:
                continue
            role = "public" if tbl == "public" else "private"
            sender = next((n for n, e in run["events"] if e[0] in ("dump", "dump_container") and e[1] == msgid), None)
            if sender != nid:
                bump("deliver_cross_node")
            if sum(1 for n, e in run["events"][:i] if e[0] == "load" and e[1] == msgid and n == nid):
                bump("deliver_duplicate")
            refs = ref if ref and isinstance(ref[0], list) else [ref]
            if tbl not in m.tables:
                bump("unpickle_without_table")
                if not is_err(out):
                    v(i, "pickle", "no_exception", ["E", "ValueError"], out, role)
                continue
            if not all(m.valid(tbl, r) for r in refs):
                bump("unpickle_missing_isotope")
                if not is_err(out):
                    v(i, "pickle", "no_exception", ["E", "KeyError"], out, role)
                continue
            if is_err(out):
                v(i, "pickle", "exception:" + out[1], [tbl] + refs[0], out, role)
                continue
            reps = out.get("container") if "container" in out else [out]
            if len(reps) != len(refs) or not out.get("mine"):
                v(i, "pickle", "wrong_object", {"mine": True, "n": len(refs)}, out, role)
                continue
            for r, rep in zip(refs, reps):
                check_report(i, nid, tbl, r, rep, "pickle")
            continue
        if k == "change_to":
            src, ref, dst = ev[1], ev[2], ev[3]
            if not m.valid(src, ref) or dst not in m.tables:
                continue
            if not m.valid(dst, ref):
                if not is_err(out):
                    v(i, "change_table", "no_exception", ["E", "KeyError"], out)
                continue
            if is_err(out):
                v(i, "change_table", "exception:" + out[1], [dst] + ref, out)
                continue
            check_report(i, nid, dst, ref, out, "change_table")
            continue
        if k == "sweep":
            tbl = ev[1]
            if tbl not in m.tables:
                continue
            role = "public" if tbl == "public" else "private"
            if is_err(out):
                v(i, "sweep", "exception:" + out[1], {"bad": []}, out, role)
            elif out.get("bad"):
                v(i, "sweep", "identity", {"bad": []}, out, role)
            else:
                notes["sweep_checks"] = notes.get("sweep_checks", 0) + out.get("checked", 0)
                if ev[2] is None:
                    notes["full_table_sweeps"] = notes.get("full_table_sweeps", 0) + 1
            continue
    trace["fired"] = fired
    trace["notes"] = notes
    return viol


def badkey_is_valid(m, tbl, route, arg):
    """Did an earlier add_isotope turn this 'invalid neighbour' into a valid key?"""
    try:
        if route == "iso":
            Z, A = arg
            return isinstance(A, int) and A in m.isotopes(tbl, Z)
        if route == "isoion":
            return False
        if route == "isostr" and "-" in arg:
            a, s = arg.split("-", 1)
            A = int(a)
            for Z, e in m.V.els.items():
                if e["symbol"] == s:
                    return A in m.isotopes(tbl, Z) or A == 0
    except Exception:  # noqa: BLE001
        return False
    return False
