"""Node-side handlers for identity events (C08)."""


class C08Mixin(object):
    pass
