"""Node-side handlers for identity events (C08)."""
import copy
import pickle

from . import canon as C


class C08Mixin(object):

    def _report(self, obj):
        """Identity (registry index) and the identifying attributes of an atom."""
        cls = type(obj).__name__
        if cls not in ("Element", "Isotope", "Ion"):
            return {"notatom": cls}
        k = C.atom_key(obj)
        out = {"key": list(k), "reg": self.ident(obj), "cls": cls}
        for n in ("number", "symbol", "name", "isotope", "charge"):
            try:
                v = C._py(getattr(obj, n))
                out[n] = v if isinstance(v, (int, float, str)) and not isinstance(v, bool) else C.canon(v)
            except Exception as e:  # noqa: BLE001
                out[n] = ["E", type(e).__name__]
        return out

    def _fingerprint(self):
        """Sizes of the identity caches and of the table registry (read defensively: the cache
        attributes are internals, a tree that renames them just gets a coarser fingerprint)."""
        fp = {}
        reg = getattr(self.core, "PRIVATE_TABLES", None)
        if isinstance(reg, dict):
            fp["#registered"] = sorted(reg)
        for name, t in self._registry().items():
            els = list(t)
            ni = nq = 0
            for el in els:
                isos = getattr(el, "_isotopes", None)
                isos = list(isos.values()) if isinstance(isos, dict) else list(el)
                ni += len(isos)
                nq += len(getattr(getattr(el, "ion", None), "ionset", ()))
                for iso in isos:
                    nq += len(getattr(getattr(iso, "ion", None), "ionset", ()))
            fp[name] = [len(els), ni, nq]
        return fp

    @staticmethod
    def _dec(x):
        """Keys that compare (and hash) equal to a valid integer key but have another type."""
        if isinstance(x, list) and len(x) == 2 and x[0] in ("f", "np", "np32"):
            import numpy as np
            return {"f": float, "np": np.int64, "np32": np.int32}[x[0]](x[1])
        return x

    def _lookup(self, tbl, route, arg):
        t = self.table(tbl)
        if isinstance(arg, list) and route in ("iso", "ion", "isoion"):
            arg = [self._dec(x) for x in arg]
        else:
            arg = self._dec(arg)
        if route == "Z":
            return t[arg]
        if route == "symbol":
            return t.symbol(arg)
        if route == "attr":
            return getattr(t, arg)
        if route == "name":
            return t.name(arg)
        if route == "isostr":
            return t.isotope(arg)
        if route == "modattr":
            return getattr(self.pt, arg)
        if route == "iso":
            return t[arg[0]][arg[1]]
        if route == "ion":
            return t[arg[0]].ion[arg[1]]
        if route == "isoion":
            return t[arg[0]][arg[1]].ion[arg[2]]
        if route == "ionattr":       # attribute delegation must reach the same element
            a = t[arg[0]].ion[arg[1]]
            return a.element
        if route == "isoel":
            return t[arg[0]][arg[1]].element
        if route == "iterpos":
            if arg[0] is None:
                return list(t)[arg[1]]
            return list(t[arg[0]])[arg[1]]
        if route == "elements_attr":
            return getattr(self.pt.elements, arg)
        raise ValueError(route)

    def ev_lookup(self, tbl, route, arg, denotes=None):
        return self._report(self._lookup(tbl, route, arg))

    def ev_badkey(self, tbl, route, arg):
        before = self._fingerprint()
        try:
            obj = self._lookup(tbl, route, arg)
        except Exception as e:  # noqa: BLE001
            after = self._fingerprint()
            return {"raised": type(e).__name__, "caches_unchanged": before == after}
        after = self._fingerprint()
        rep = self._report(obj)
        rep["raised"] = None
        rep["caches_unchanged"] = before == after
        return rep

    def ev_roundtrip(self, tbl, ref, how):
        a = self.atom(tbl, ref)
        if how == "copy":
            b = copy.copy(a)
        elif how == "deepcopy":
            b = copy.deepcopy(a)
        elif how.startswith("pickle:"):
            b = pickle.loads(pickle.dumps(a, int(how.split(":")[1])))
        else:
            raise ValueError(how)
        rep = self._report(b)
        rep["same"] = b is a
        rep["orig"] = self.ident(a)
        return rep

    def ev_drop_handle(self, name, refs):
        """The caller keeps some atoms of a private table and drops its reference to the table
        object itself (a helper that builds a table and returns atoms or a formula)."""
        import gc
        kept = getattr(self, "kept", None)
        if kept is None:
            kept = self.kept = {}
        import weakref
        kept[name] = [self.atom(name, r) for r in refs]
        t = self.tables.pop(name, None)
        if t is not None:
            if getattr(self, "dropped", None) is None:
                self.dropped = {}
            self.dropped[name] = weakref.ref(t)
        del t
        gc.collect()
        return "ok"

    def ev_roundtrip_kept(self, name, i, how):
        a = self.kept[name][i]
        if how == "copy":
            b = copy.copy(a)
        elif how == "deepcopy":
            b = copy.deepcopy(a)
        else:
            b = pickle.loads(pickle.dumps(a, int(how.split(":")[1])))
        rep = self._report(b)
        rep["same"] = b is a
        rep["orig"] = self.ident(a)
        return rep

    def ev_container(self, tbl, refs, how):
        atoms = [self.atom(tbl, r) for r in refs]
        import numpy as np
        box = {"l": atoms, "d": {a: i for i, a in enumerate(atoms)}, "t": tuple(atoms[:2]),
               "v": {i: a for i, a in enumerate(atoms)}, "s": frozenset(atoms)}
        arr = np.empty(len(atoms), dtype=object)
        arr[:] = atoms
        box["np"] = arr
        try:
            box["f"] = self.pt.formula({a: 1.0 for a in atoms})
        except Exception:  # noqa: BLE001
            box["f"] = None
        if how == "deepcopy":
            out = copy.deepcopy(box)
        else:
            out = pickle.loads(pickle.dumps(box, int(how.split(":")[1])))
        same = all(x is y for x, y in zip(out["l"], atoms)) and len(out["l"]) == len(atoms)
        same = same and all(k is a for k, a in zip(out["d"], box["d"])) and len(out["d"]) == len(box["d"])
        same = same and all(x is y for x, y in zip(out["t"], box["t"]))
        same = same and all(out["v"][i] is a for i, a in enumerate(atoms))
        same = same and {id(x) for x in out["s"]} == {id(x) for x in box["s"]}
        same = same and all(x is y for x, y in zip(out["np"].tolist(), atoms))
        if box["f"] is not None:
            same = same and {id(x) for x in out["f"].atoms} == {id(x) for x in box["f"].atoms}
        # atoms are used as dictionary keys everywhere: distinct atoms (an ion and its atom, an
        # isotope and its element, the same atom of two tables) must stay distinct keys
        rel = list(atoms)
        for a in atoms:
            p = getattr(a, "element", None)
            if p is not None:
                rel.append(p)
            try:
                k = C.atom_key(a)
                other = "public" if tbl != "public" else next((n for n in self.tables if n != "public"), None)
                if other is not None:
                    rel.append(self.atom(other, k[1:]))
            except Exception:  # noqa: BLE001
                pass
        ids = {id(x) for x in rel}
        keys = {}
        for x in rel:
            keys[x] = 1
        return {"same": same, "n": len(atoms), "nd": len(out["d"]), "distinct": len(ids), "keys": len(keys),
                "set": len(set(rel))}

    def ev_change_to(self, src, ref, dst):
        a = self.atom(src, ref)
        b = self.core.change_table(a, self.table(dst))
        return self._report(b)

    def ev_iter(self, tbl, Z):
        t = self.table(tbl)
        if Z is None:
            items = list(t)
            nums = [e.number for e in items]
            regs = [self.ident(e) for e in items]
            same = all(t[e.number] is e for e in items)
        else:
            el = t[Z]
            items = list(el)
            nums = [i.isotope for i in items]
            regs = [self.ident(i) for i in items]
            same = all(el[i.isotope] is i for i in items) and nums == sorted(el.isotopes)
        return {"nums": nums, "same": same, "distinct": len(set(regs)) == len(regs)}

    def ev_owned_result(self, tbl, Z, what, edit):
        """The caller owns the list it was handed (el.isotopes, el.ions): it edits that list in
        place.  What the table serves afterwards must be what it served before."""
        t = self.table(tbl)
        el = t[Z]

        def look():
            isos = list(el.isotopes)
            out = {"isotopes": [C._py(a) for a in isos], "ions": [C._py(q) for q in el.ions],
                   "iter": [C._py(i.isotope) for i in el]}
            sym = el.symbol
            out["routes"] = all(t.isotope("%d-%s" % (a, sym)) is el[a] for a in isos[:6] + isos[-2:])
            return out
        before = look()
        got = getattr(el, what)
        edited = False
        if isinstance(got, list):        # an immutable result cannot be edited: nothing to do
            edited = True
            if edit == "reverse":
                got.reverse()
            elif edit == "clear":
                del got[:]
            elif edit == "pop" and got:
                got.pop(0)
            elif edit == "append":
                got.append(999)
        return {"before": before, "after": look(), "edited": edited}

    def ev_iter_interleaved(self, tbl, Z, k, what, arg=None):
        """An iteration that is still being consumed while something else legal happens: take k
        items from iter(el) (or iter(table)), perform the operation, take the rest."""
        t = self.table(tbl)
        src = t if Z is None else t[Z]
        it = iter(src)
        got = []
        for _ in range(k):
            try:
                got.append(next(it))
            except StopIteration:
                break
        if what == "add_isotope":
            t[Z if Z is not None else 26].add_isotope(arg)
        elif what == "init_mass":
            self.module("periodictable.mass").init(t, reload=bool(arg))
        elif what == "lookup":
            self._lookup(tbl, "isostr", arg)
        else:
            raise ValueError(what)
        got += list(it)
        if Z is None:
            nums = [e.number for e in got]
            same = all(t[e.number] is e for e in got)
        else:
            nums = [i.isotope for i in got]
            same = all(src[i.isotope] is i for i in got)
        return {"nums": nums, "same": same, "increasing": nums == sorted(set(nums))}

    def ev_pickle_whole(self, tbl, ref, q_new, what, how):
        """Pickle / deep-copy something bigger than an atom (an atom's ion set, or the whole table),
        use another ion of that atom for the first time, restore the copy, and look again: the ion
        handed out in between must still be the atom's ion."""
        t = self.table(tbl)
        a = self.atom(tbl, ref)
        obj = a.ion if what == "ionset" else t
        if how == "deepcopy":
            x = a.ion[q_new]
            copy.deepcopy(obj)
        else:
            blob = pickle.dumps(obj, int(how.split(":")[1]))
            x = a.ion[q_new]
            pickle.loads(blob)
        y = a.ion[q_new]
        rep = self._report(y)
        rep["same"] = x is y
        rep["orig"] = self.ident(x)
        return rep

    def ev_define_elements(self, tbl, prefill):
        """core.define_elements(table, namespace): the documented way to export a table's atoms as
        variables.  The namespace may already hold the names of another table (a module that did
        `from periodictable import *` before exporting its own table)."""
        t = self.table(tbl)
        ns = {}
        if prefill is not None:
            self.core.define_elements(self.table(prefill), ns)
        names = self.core.define_elements(t, ns)
        wrong = []
        for el in t:
            for k in (el.symbol, el.name):
                if ns.get(k) is not el:
                    wrong.append(k)
        for k, a in (("D", t.D), ("T", t.T), ("deuterium", t.D), ("tritium", t.T)):
            if ns.get(k) is not a:
                wrong.append(k)
        return {"names": len(names), "wrong": len(wrong), "first": wrong[:4]}

    def ev_add_isotope(self, tbl, Z, A):
        el = self.table(tbl)[Z]
        iso = el.add_isotope(A)
        return self._report(iso)

    def ev_load_bytes(self, data, expect_tbl=None, expect_ref=None):
        obj = pickle.loads(data)
        if type(obj).__name__ == "Formula":
            tbls = sorted({C.atom_key(a)[0] for a in obj.atoms})
            ok = all(self._is_mine(a) for a in obj.atoms)
            return {"formula_tables": tbls, "all_mine": ok}
        if isinstance(obj, (list, tuple, dict)):
            items = list(obj)
            return {"container": [self._report(x) for x in items], "mine": all(self._is_mine(x) for x in items)}
        rep = self._report(obj)
        rep["mine"] = self._is_mine(obj)
        return rep

    def ev_dump_container(self, msgid, tbl, refs, proto):
        atoms = [self.atom(tbl, r) for r in refs]
        return ["B", pickle.dumps(atoms, proto)]

    def ev_fingerprint(self):
        return self._fingerprint()

    # ------------------------------------------------------------------ sweep
    def ev_sweep(self, tbl, zs=None, deep=False):
        """Invariant sweep inside the node: every atom of the table (or of the listed
        elements) through every route resolves to one object with the right attributes."""
        t = self.table(tbl)
        pt = self.pt
        bad = []
        held = []
        n = 0

        def chk(cond, what):
            nonlocal n
            n += 1
            if not cond and len(bad) < 8:
                bad.append(what)

        els = list(t)
        nums = [e.number for e in els]
        chk(nums == sorted(set(nums)), "iter(T) not strictly increasing")
        if zs is not None:
            els = [t[z] for z in zs]
        tname = tbl
        for el in els:
            Z, sym, name = el.number, el.symbol, el.name
            chk(t[Z] is el, "T[%d]" % Z)
            chk(t.symbol(sym) is el, "symbol(%s)" % sym)
            chk(getattr(t, sym) is el, "attr %s" % sym)
            chk(t.name(name) is el, "name(%s)" % name)
            chk(t.isotope(sym) is el, "isotope(%s)" % sym)
            chk(C.atom_key(el) == (tname, Z, 0, 0), "key of %s" % sym)
            if tbl == "public":
                chk(getattr(pt, sym) is el, "pt.%s" % sym)
                chk(getattr(pt, name) is el, "pt.%s" % name)
            chk(pickle.loads(pickle.dumps(el, 2)) is el, "pickle %s" % sym)
            isos = list(el)
            As = [i.isotope for i in isos]
            chk(As == sorted(set(As)) and As == sorted(el.isotopes), "iter(%s)" % sym)
            for iso in isos:
                A = iso.isotope
                chk(el[A] is iso, "%s[%d]" % (sym, A))
                chk(t.isotope("%d-%s" % (A, sym)) is iso, "isotope(%d-%s)" % (A, sym))
                chk(iso.element is el and iso.number == Z, "%s[%d].element" % (sym, A))
                held.append((Z, A, 0, iso))
                if deep:
                    chk(pickle.loads(pickle.dumps(iso, 4)) is iso, "pickle %s[%d]" % (sym, A))
                    for q in el.ions:
                        ion = iso.ion[q]
                        held.append((Z, A, q, ion))
                        chk(iso.ion[q] is ion and ion.charge == q and ion.element is iso,
                            "%s[%d].ion[%d]" % (sym, A, q))
                        chk(pickle.loads(pickle.dumps(ion, 4)) is ion, "pickle %s[%d].ion[%d]" % (sym, A, q))
            held.append((Z, 0, 0, el))
            for q in el.ions:
                ion = el.ion[q]
                held.append((Z, 0, q, ion))
                chk(el.ion[q] is ion and ion.charge == q and ion.element is el and ion.number == Z,
                    "%s.ion[%d]" % (sym, q))
                chk(pickle.loads(pickle.dumps(ion, 2)) is ion, "pickle %s.ion[%d]" % (sym, q))
                chk(copy.deepcopy(ion) is ion, "deepcopy %s.ion[%d]" % (sym, q))
            if isos and el.ions:
                iso, q = isos[len(isos) // 2], sorted(el.ions)[0]
                ii = iso.ion[q]
                chk(iso.ion[q] is ii and ii.charge == q and ii.isotope == iso.isotope, "%s isoion" % sym)
                chk(pickle.loads(pickle.dumps(ii, 4)) is ii, "pickle isoion %s" % sym)
                chk(copy.deepcopy(ii) is ii, "deepcopy isoion %s" % sym)
        # second pass: everything collected above is resolved again after the whole walk, so that
        # an object that was replaced while OTHER atoms were being visited (a bounded or evicting
        # cache) is noticed, not only one that changes between two consecutive reads
        for Z, A, q, obj in held:
            a = t[Z]
            if A:
                a = a[A]
            if q:
                a = a.ion[q]
            chk(a is obj, "second pass %d/%d/%d" % (Z, A, q))
        # D and T aliases
        chk(t.D is t.H[2] and t.T is t.H[3] and t.symbol("D") is t.D and t.isotope("T") is t.T
            and t.name("deuterium") is t.D and t.name("tritium") is t.T, "D/T aliases")
        chk(t.D.symbol == "D" and t.D.name == "deuterium" and t.D.isotope == 2 and t.D.number == 1, "D attrs")
        return {"checked": n, "bad": bad}
