"""Oracles for C10 (DESIGN 5/C10): public isolation via the counterfactual
history, equality of claimed private keys, membership, pickling, bounded
progress after a failed init."""
from . import events as E
from . import model as M
from . import runner
from .runner import REPLICA_KINDS, classify, event_group


def finish(W, run, trace, nodes, node):
    """Everything that needs the live nodes: digests of the public table and of the
    claimed groups of every private table."""
    claims = M.claims_of(run, trace["outcomes"])
    trace["claims"] = {t: claims.claimed(t) for t in claims.tables}
    trace["tables"] = {}
    trace["pub"] = {}
    for nid in sorted(nodes):
        n = nodes[nid]
        d = n.call("digest", "public", runner.stable_groups(), W.canon_hashes, False)
        trace["pub"][nid] = d
        pub_h = {g: h for g, (h, _) in d.items()}
        for t, tn in sorted(claims.tables.items()):
            if tn != nid:
                continue
            groups = [g for g in claims.claimed(t) if g not in runner.UNSTABLE]
            if not groups:
                trace["tables"][t] = {"claimed": [], "digest": {}, "pub_detail": {}}
                continue
            dt = n.call("digest", M.real_name(t), groups, pub_h, False)
            pub_detail = {}
            for g, (h, detail) in dt.items():
                if detail is not None and h != W.canon_hashes.get(g):
                    pd = n.call("digest", "public", [g], None, True)
                    pub_detail[g] = pd[g][1]
            trace["tables"][t] = {"claimed": groups, "digest": dt, "pub_detail": pub_detail, "node": nid}
        trace.setdefault("final_abstract", {})[nid] = n.call("abstract")
    # O9: what a *customised* table serves at the end (the groups that are no longer comparable with
    # the public table); judged against the history without the other private tables
    trace["own"] = own_digests(run, claims, nodes)
    # the digests handed to trace_hash
    trace["digest"] = trace["pub"].get(0, {})
    trace["digest_tables"] = {"%s:%s" % (t, g): h for t, info in trace["tables"].items()
                              for g, (h, _) in info["digest"].items()}


def expected_readback(run, outcomes, i, nid, ev):
    """(value, index of the mutation) a readback must return: the value written by the last
    successful named mutation of that very spot, provided that nothing since then was entitled to
    change it -- no restart of the interpreter, no re-creation of the table, no init of that group
    on that table and no other customisation of that group on that table."""
    tbl, ref, target = ev[1], ev[2], ev[3]
    g = M.MUTATE_GROUP.get(target)
    for j in range(i - 1, -1, -1):
        n2, e = run["events"][j]
        if n2 != nid:
            continue
        if e[0] == "restart" or (e[0] == "newtable" and e[1] == tbl):
            return None
        if e[0] == "init" and e[1] == tbl and (e[2] == g or e[2] in M.PREREQ.get(g, ()) or g in M.PREREQ.get(e[2], ())):
            return None
        if e[0] == "mutate_walk" and e[1] == tbl:
            return None
        if e[0] == "mutate" and e[1] == tbl:
            if e[2] == ref and e[3] == target and outcomes[j] == "ok":
                arg = e[4] if len(e) > 4 else None
                if arg == "<del>":
                    return None
                if target in ("magnetic_ff_dict", "magnetic_ff_assign"):
                    v = "verif"
                elif target == "activation_assign":
                    v = 0
                else:
                    v = None if arg == "<none>" else (1.2345 if arg is None else arg)
                return (runner.C.canon(v), j)
            return None          # another customisation of this table in between: not modelled
    return None


def o9_targets(run):
    """Private table names that were customised while another private table took part in the run."""
    edited, names = {}, set()
    for _, ev in run["events"]:
        names |= M.private_tables_of(ev)
        if ev[0] in ("mutate", "mutate_walk") and ev[1] != "public":
            edited[ev[1]] = edited.get(ev[1], 0) + 1
    if len(names) < 2:
        return []
    return sorted(edited, key=lambda t: (-edited[t], t))[:2]


def own_digests(run, claims, nodes, only=None, detail=False):
    out = {}
    for name in (o9_targets(run) if only is None else only):
        for t, nid in sorted(claims.tables.items()):
            if M.real_name(t) != name or nid not in nodes:
                continue
            groups = [g for g in claims.initialised(t) if g not in claims.claimed(t) and g not in runner.UNSTABLE]
            if groups:
                d = nodes[nid].call("digest", name, groups, None, detail)
                out[t] = {g: (h, keys) for g, (h, keys) in d.items()}
    return out


def without_other_tables(W, run, name, detail=False):
    """The same history without every event that involves a private table other than *name*."""
    keep = [(i, ne) for i, ne in enumerate(run["events"]) if not (M.private_tables_of(ne[1]) - {name})]
    cf = {"prop": "C10OWN", "seed": run.get("seed"), "index": run.get("index"), "cfg": run.get("cfg"),
          "events": [ne for _, ne in keep], "own": name, "own_detail": detail}
    tr = W.execute(cf, want_abstract=False)
    tr["outcome_of"] = {i: tr["outcomes"][j] for j, (i, _) in enumerate(keep)}
    return tr


def finish_own(W, run, trace, nodes, node):
    claims = M.claims_of(run, trace["outcomes"])
    trace["own"] = own_digests(run, claims, nodes, only=[run["own"]], detail=run.get("own_detail", False))
    trace["digest"] = {}


def judge_own(W, run, trace, viol):
    """O9 (non-interference between private tables, customised groups included): what a customised
    table serves at the end of the run is what it serves when the other private tables never existed."""
    for name in o9_targets(run):
        mine = {t: d for t, d in trace.get("own", {}).items() if M.real_name(t) == name}
        if not mine:
            continue
        alone_tr = without_other_tables(W, run, name)
        alone = alone_tr.get("own", {})
        # what the operations on this table returned (only while the public table is as shipped:
        # after a public edit what a fasta-based calculator returns legitimately follows the public table)
        if not any(e[0] in ("mutate", "mutate_walk") and e[1] == "public" for _, e in run["events"]):
            for i, (nid, ev) in enumerate(run["events"]):
                if M.private_tables_of(ev) == {name} and ev[0] in ("read", "probe", "init", "calc", "mutate", "mutate_walk",
                                                                   "formula", "mix", "calc_str") \
                        and i in alone_tr["outcome_of"] and alone_tr["outcome_of"][i] != trace["outcomes"][i]:
                    viol.append({"oracle": "O9", "role": "other", "group": event_group(ev),
                                 "kind": classify(alone_tr["outcome_of"][i], trace["outcomes"][i]), "event": i,
                                 "expected": alone_tr["outcome_of"][i], "observed": trace["outcomes"][i]})
        bad = [(t, g) for t, d in sorted(mine.items()) for g, (h, _) in sorted(d.items())
               if t in alone and g in alone[t] and alone[t][g][0] != h]
        if not bad:
            continue
        # details only now (rare path): re-execute both histories asking for the keys
        full = dict(run, prop="C10OWN", own=name, own_detail=True)
        real = W.execute(full, want_abstract=False).get("own", {})
        alone = without_other_tables(W, run, name, detail=True).get("own", {})
        for t, g in bad:
            if t in real and g in real[t] and t in alone and g in alone[t]:
                viol += W.digest_violations({g: real[t][g]}, "O9", "other", {g: alone[t][g][0]},
                                            lambda g, t=t: alone[t][g][1])


def counterfactual(W, run):
    """The same history with every private-table event removed, on fresh node(s)."""
    keep = [(i, ne) for i, ne in enumerate(run["events"]) if not M.is_private_event(ne[1])]
    cf = {"prop": "C10CF", "seed": run.get("seed"), "index": run.get("index"), "cfg": run.get("cfg"),
          "events": [ne for _, ne in keep]}
    tr = W.execute(cf, want_abstract=False)
    return {i: tr["outcomes"][j] for j, (i, _) in enumerate(keep)}, tr


def finish_cf(W, run, trace, nodes, node):
    trace["pub"] = {}
    for nid in sorted(nodes):
        trace["pub"][nid] = nodes[nid].call("digest", "public", runner.stable_groups(), W.canon_hashes, False)
    if 0 not in trace["pub"]:
        trace["pub"][0] = node(0).call("digest", "public", runner.stable_groups(), W.canon_hashes, False)
    trace["digest"] = trace["pub"][0]


def judge(W, run, trace):
    viol = []
    claims = M.claims_of(run, trace["outcomes"])
    outcomes = trace["outcomes"]

    # ---- public table: per-event outcomes and final digest vs reference, then counterfactual ----
    suspicious = False
    for i, (nid, ev) in enumerate(run["events"]):
        if ev[0] in REPLICA_KINDS and (ev[0] == "import" or ev[1] == "public"):
            if outcomes[i] != W.ref_outcome(ev):
                suspicious = True
        elif ev[0] == "init" and ev[1] == "public":
            if outcomes[i] != "ok":
                suspicious = True
    for nid, d in trace["pub"].items():
        if any(h != W.canon_hashes.get(g) for g, (h, _) in d.items()):
            suspicious = True
    # Once the *public* table has been customised by a mutator, what it serves legitimately depends on
    # when its lazy groups were loaded relative to the edit (core.py documents this), and removing the
    # private events moves those loads.  So public isolation (O1) is then judged only for events before
    # the first public edit and for digest groups that do not depend on an edited group.
    first_pub_edit = {}
    for i, (nid, ev) in enumerate(run["events"]):
        if ev[0] in ("mutate", "mutate_walk") and ev[1] == "public":
            first_pub_edit.setdefault(nid, i)
    if suspicious:
        cf_out, cf_tr = counterfactual(W, run)
        for i, (nid, ev) in enumerate(run["events"]):
            if i >= first_pub_edit.get(nid, len(run["events"])):
                continue
            if i in cf_out and outcomes[i] != cf_out[i] and (ev[0] in REPLICA_KINDS or ev[0] in ("init", "import")):
                viol.append({"oracle": "O1", "role": "public", "group": event_group(ev),
                             "kind": classify(cf_out[i], outcomes[i]), "event": i,
                             "expected": cf_out[i], "observed": outcomes[i]})
        for nid, d in trace["pub"].items():
            cfd = cf_tr["pub"].get(nid)
            if cfd is None:
                # this interpreter executes nothing in the counterfactual history: a fresh node,
                # whose public table serves the canonical values
                cfd = {g: (W.canon_hashes.get(g), None) for g in d}
            cf_h = {g: h for g, (h, _) in cfd.items()}
            d = {g: v for g, v in d.items() if (nid, g) not in claims.public_tainted}
            if any(h != cf_h.get(g) for g, (h, _) in d.items()):
                def cf_detail(g, cfd=cfd):
                    det = cfd[g][1]
                    return det if det is not None else W.ref_detail(g)
                viol += W.digest_violations(d, "O1", "public", cf_h, cf_detail)

    # ---- private tables: claimed keys equal the public table (O2/O3), bounded progress (O6) ----
    for t, info in sorted(trace["tables"].items()):
        nid = info.get("node", 0)
        pub = trace["pub"][nid]
        for g, (h, detail) in info["digest"].items():
            if h == W.canon_hashes.get(g):
                continue
            if h == pub[g][0] and (nid, g) not in claims.public_tainted:
                continue
            ref = info["pub_detail"].get(g) if (nid, g) not in claims.public_tainted else None
            ref = ref or W.ref_detail(g)
            oracle = "O6" if any((t, n) in claims.failed_before for n in M.PREREQ[g]) else "O2"
            role = "private"
            if oracle == "O2" and any(pg == g or pg in M.PREREQ[g] for (pn, pg) in claims.public_tainted if pn == nid):
                oracle = "O8"      # the private table followed an edit made to the public table
            if oracle == "O2" and any(e[0] in ("mutate", "mutate_walk") and e[1] not in ("public", M.real_name(t))
                                      for _, e in run["events"]):
                oracle, role = "O3", "other"
            viol += W.digest_violations({g: (h, detail)}, oracle, role, {g: None}, lambda g, ref=ref: ref)

    # ---- membership (O4), pickling (O5), failing operations ----
    for i, (nid, ev) in enumerate(run["events"]):
        out = outcomes[i]
        k = ev[0]
        if k in ("formula", "mix", "change_table"):
            if isinstance(out, dict) and out.get("foreign"):
                viol.append({"oracle": "O4", "role": "private" if ev[1] != "public" else "public",
                             "group": "formula:" + fkind(ev), "kind": "foreign_atoms", "event": i,
                             "expected": {"foreign": 0}, "observed": out})
        elif k == "formula_reuse" and ev[3].startswith("own_"):
            # only across tables: what one table's parser hands out twice for the same string
            # (the blank formula is one object per grammar) is not a matter of isolation
            if (ev[4] or "public") != ev[1] and isinstance(out, dict) and (out["after"] != out["before"] or out["after"].get("foreign")):
                viol.append({"oracle": "O4", "role": "private" if ev[4] not in ("public", None) else "public",
                             "group": "formula:reuse:" + ev[3], "kind": "foreign_atoms" if out["after"].get("foreign") else "value_changed",
                             "event": i, "expected": out["before"], "observed": out["after"]})
        elif k == "formula_reuse":
            if isinstance(out, dict) and ev[4] is None and ev[1] != "public" and out.get("kept") is False \
                    and not out["before"].get("foreign"):
                viol.append({"oracle": "O4", "role": "private", "group": "formula:reuse:" + ev[3],
                             "kind": "moved_to_another_table_unasked", "event": i,
                             "expected": {"kept": True}, "observed": out})
            if isinstance(out, dict) and not out["before"].get("foreign") and out["after"].get("foreign"):
                viol.append({"oracle": "O4", "role": "private" if ev[1] != "public" else "public",
                             "group": "formula:reuse:" + ev[3], "kind": "foreign_atoms", "event": i,
                             "expected": out["before"], "observed": out["after"]})
        elif k == "readback":
            exp = expected_readback(run, outcomes, i, nid, ev)
            if exp is not None and out != exp[0]:
                viol.append({"oracle": "O9", "role": "public" if ev[1] == "public" else "private",
                             "group": "readback:" + M.MUTATE_GROUP.get(ev[3], "?"),
                             "kind": "customisation_lost" if not (isinstance(out, list) and out[:1] == ["E"]) else "exception",
                             "event": i, "expected": exp[0], "observed": out, "since": exp[1]})
        elif k == "change_atom":
            if isinstance(out, dict) and not (out["same_key"] and out["table_ok"] and out["is"]):
                viol.append({"oracle": "O4", "role": "private", "group": "change_table", "kind": "wrong_atom",
                             "event": i, "expected": {"same_key": True, "table_ok": True, "is": True},
                             "observed": out})
        elif k == "load":
            v = judge_load(run, i, nid, ev, out, outcomes)
            if v:
                viol.append(v)
        elif k == "newtable":
            dup = any(e[0] == "newtable" and e[1] == ev[1] and n2 == nid and outcomes[j] == "ok"
                      and not restarted_between(run, j, i, nid)
                      for j, (n2, e) in enumerate(run["events"][:i]))
            if (dup or ev[1] == "public") and out == "ok":
                viol.append({"oracle": "O5", "role": "private", "group": "newtable", "kind": "no_exception",
                             "event": i, "expected": ["E", "ValueError"], "observed": out})
        # a failing operation must leave the registered groups of every other table unchanged
        if isinstance(out, list) and out[:1] == ["E"] and k in ("init", "newtable", "load", "mutate", "formula"):
            before = trace["abstract"][i - 1] if i else trace["init_abstract"].get(nid)
            after = trace["abstract"][i]
            if before and after and i and run["events"][i - 1][0] == nid:
                mine = ev[1] if k in ("init", "mutate", "formula") else None
                for tn, props in before["props"].items():
                    if tn not in (mine, "public") and after["props"].get(tn) != props:
                        viol.append({"oracle": "O7", "role": "other", "group": "properties",
                                     "kind": "changed_by_failed_op", "event": i,
                                     "expected": props, "observed": after["props"].get(tn)})
                for tn in after["props"]:
                    if tn not in before["props"] and not (k == "newtable"):
                        viol.append({"oracle": "O7", "role": "other", "group": "tables",
                                     "kind": "created_by_failed_op", "event": i,
                                     "expected": sorted(before["props"]), "observed": sorted(after["props"])})
    judge_own(W, run, trace, viol)
    trace["fired"] = fired_c10(run, trace)
    return viol


def fired_c10(run, trace):
    """C10 fault kinds that actually fired, from observed outcomes and the real abstract states."""
    from .runner import pending_groups
    out = {}

    def bump(k):
        out[k] = out.get(k, 0) + 1
    prev = dict(trace.get("init_abstract", {}))
    failed = set()
    mutated = set()
    dumped = {}
    loaded = set()
    if (run.get("cfg") or {}).get("names"):
        bump("unusual_table_names")
    if trace.get("own"):
        bump("customised_table_reexecuted_without_the_others")
    for i, (nid, ev) in enumerate(run["events"]):
        o = trace["outcomes"][i]
        err = isinstance(o, list) and o[:1] == ["E"]
        k = ev[0]
        before = prev.get(nid)
        if k == "readback" and not err and expected_readback(run, trace["outcomes"], i, nid, ev) is not None:
            bump("readback_of_customisation")
        if k == "formula_reuse" and not err and ev[3].startswith("own_") and (ev[4] or "public") != ev[1]:
            bump("caller_edits_own_formula")
        if k == "init" and ev[1] != "public":
            key = (nid, ev[1], ev[2])
            if err:
                bump("fail_op_missing_prerequisite")
                failed.add(key)
            else:
                if key in failed:
                    bump("retry_after_failed_init")
                    failed.discard(key)
                if before is not None and ev[2] in pending_groups(before):
                    bump("private_init_while_public_pending")
        elif k == "newtable":
            if err:
                bump("duplicate_table_name")
            elif any(m[0] == nid and m[1] != ev[1] for m in mutated):
                bump("second_table_after_first_modified")
        elif k in ("mutate", "mutate_walk") and not err and o != "skip":
            bump("mutation" if k == "mutate" else "mutation_walk")
            mutated.add((nid, ev[1]))
            if before is not None and k == "mutate":
                from .model import MUTATE_GROUP
                if MUTATE_GROUP.get(ev[3]) in pending_groups(before):
                    bump("private_assignment_while_public_pending")
        elif k in ("dump", "dump_formula") and not err:
            dumped[ev[1]] = nid
        elif k == "load":
            if ev[1] in dumped:
                if dumped[ev[1]] != nid:
                    bump("deliver_cross_node")
                if (nid, ev[1]) in loaded:
                    bump("deliver_duplicate")
                loaded.add((nid, ev[1]))
                if err:
                    bump("unpickle_raised")
        elif k == "restart":
            bump("restart")
        ab = trace["abstract"][i]
        if ab is not None:
            prev[nid] = ab
    return out


def fkind(ev):
    if ev[0] == "formula":
        s = ev[2]
        if isinstance(s, str) and s.split(":")[0] in ("aa", "dna", "rna"):
            return "fasta"
        return ev[3] if len(ev) > 3 else "str"
    return ev[0]


def restarted_between(run, j, i, nid):
    return any(n == nid and e[0] == "restart" for n, e in run["events"][j:i])


def judge_load(run, i, nid, ev, out, outcomes):
    """['load', msgid, tbl, atom] restored on node nid."""
    tbl, ref = ev[2], ev[3]
    # state of the receiving node when the message arrives
    has_table = tbl == "public"
    has_mass = tbl == "public"
    for j, (n2, e) in enumerate(run["events"][:i]):
        if n2 != nid:
            continue
        if e[0] == "restart":
            has_table = tbl == "public"
            has_mass = tbl == "public"
        elif e[0] == "newtable" and e[1] == tbl and outcomes[j] == "ok":
            has_table = True
        elif e[0] == "init" and e[1] == tbl and e[2] == "mass" and outcomes[j] == "ok":
            has_mass = True
        elif e[0] == "mutate" and e[1] == tbl and e[3] == "add_isotope" and e[2][0] == ref[0] and e[4] == ref[1]:
            pass
    is_err = isinstance(out, list) and out[:1] == ["E"]
    base = {"oracle": "O5", "role": "private" if tbl != "public" else "public", "group": "pickle", "event": i}
    if ref and ref[0] == "formula":
        # a pickled Formula of tbl: every atom must come back as the receiver's own atom of tbl
        base["group"] = "pickle_formula"
        s = ref[1]
        if is_err:
            if out[1] == "NoSuchMessage" or not has_table or ("[" in s and not has_mass):
                return None
            return dict(base, kind="exception:" + out[1], expected={"all_mine": True}, observed=out)
        if not has_table:
            return dict(base, kind="no_exception", expected=["E", "ValueError"], observed=out)
        if not isinstance(out, dict) or not out.get("all_mine") or out.get("formula_tables") not in ([tbl], []):
            return dict(base, kind="wrong_object", expected={"formula_tables": [tbl], "all_mine": True}, observed=out)
        return None
    if not has_table:
        if not is_err:
            return dict(base, kind="no_exception", expected=["E", "ValueError"], observed=out)
        return None
    special = ref[0] == 1 and ref[1] in (2, 3)
    if is_err:
        if out[1] == "NoSuchMessage":
            return None
        if ref[1] and not has_mass and not special:
            return None        # the receiving table has no such isotope yet: raising is right
        return dict(base, kind="exception:" + out[1], expected={"key": [tbl] + list(ref), "mine": True}, observed=out)
    if not isinstance(out, dict) or out.get("key") != [tbl] + list(ref) or not out.get("mine"):
        return dict(base, kind="wrong_object", expected={"key": [tbl] + list(ref), "mine": True}, observed=out)
    return None
