"""Parallel execution of runs: 16 worker processes, each forking its own nodes."""
import concurrent.futures as cf
import hashlib
import json
import multiprocessing as mp
import os
import sys
import traceback

from . import events as E
from . import runner
from .proc import HarnessError

_W = None      # per-process Worker
_V = None
_STRATA = {}


def gen_run(prop, master, tier, index, V, bias=None):
    from . import gen_c09, gen_c10, gen_c08
    seed = E.run_seed(master, prop, tier, index)
    if prop == "C09":
        return gen_c09.gen(seed, V, tier, index, bias=bias)
    if prop == "C10":
        return gen_c10.gen(seed, V, tier, index, bias=bias)
    if prop == "C08":
        return gen_c08.gen(seed, V, tier, index, bias=bias)
    raise ValueError(prop)


def _init(repo, mode="fork"):
    global _W, _V
    import faulthandler
    import signal
    faulthandler.enable()
    faulthandler.register(signal.SIGUSR1, all_threads=True)
    _W = runner.Worker(repo, mode)
    _V = E.Vocab(_W.replica.call("vocab"))


def worker():
    return _W, _V


def trace_hash(run, trace):
    h = hashlib.sha256()
    h.update(json.dumps(run["events"], sort_keys=True).encode())
    h.update(json.dumps(trace["outcomes"], sort_keys=True).encode())
    h.update(json.dumps(trace["abstract"], sort_keys=True).encode())
    for k in sorted(trace):
        if k.startswith("digest"):
            d = trace[k]
            h.update(json.dumps({g: (v[0] if isinstance(v, (tuple, list)) else v)
                                 for g, v in d.items()}, sort_keys=True).encode())
    return h.hexdigest()


def kind_sequence(run):
    """The event-kind sequence of a history (what 'distinct' means in the evidence)."""
    out = []
    for nid, ev in run["events"]:
        k = [nid, ev[0]]
        if ev[0] == "read":
            A, q = ev[2][1], ev[2][2]
            route = ("iso" if A else "el") + ("ion" if q else "")
            k += [ev[1], ev[3], route, ev[4]]
        elif ev[0] in ("calc",):
            k += [ev[1], ev[2]]
        elif ev[0] == "init":
            k += [ev[1], ev[2], bool(ev[3])]
        elif ev[0] == "probe":
            k += [ev[1], ev[3]]
        elif ev[0] in ("import", "ext", "newtable"):
            k += [ev[1]]
        elif len(ev) > 2:
            k += [x for x in ev[1:4] if isinstance(x, (str, bool, int))]
        out.append(k)
    return json.dumps(out)


def run_chunk(args):
    """Execute runs [lo, hi) of a batch; returns aggregated statistics and failures."""
    prop, master, tier, lo, hi, bias, check_replica = args
    W, V = _W, _V
    res = {"n": 0, "steps": 0, "fired": {}, "states": set(), "trans": set(), "seqs": {}, "pairs": set(),
           "fail": [], "hashes": {}, "samples": [], "last_new": None, "notes": {}}
    import signal

    def on_alarm(signum, frame):
        raise HarnessError("run exceeded its wall-clock cap")
    signal.signal(signal.SIGALRM, on_alarm)
    i = lo
    try:
        for i in range(lo, hi):
            signal.alarm(400)
            run = gen_run(prop, master, tier, i, V, bias)
            trace = W.execute(run)
            viol = W.judge(run, trace)
            res["n"] += 1
            res["steps"] += trace["steps"]
            f = runner.fired(run, trace)
            for k, v in trace.get("fired", {}).items():
                f[k] = f.get(k, 0) + v
            for k, v in f.items():
                res["fired"][k] = res["fired"].get(k, 0) + v
            prev = {nid: runner.abstract_key(ab) for nid, ab in trace.get("init_abstract", {}).items()}
            prevab = dict(trace.get("init_abstract", {}))
            for (nid, ev), ab in zip(run["events"], trace["abstract"]):
                if ab is None:
                    continue
                k = runner.abstract_key(ab)
                res["states"].add(k)
                if nid in prev:
                    res["trans"].add((prev[nid], runner.event_group(ev)))
                if nid in prevab:
                    res["pairs"].add(",".join(sorted(runner.pending_groups(prevab[nid]))) + "|" + runner.event_group(ev))
                prev[nid] = k
                prevab[nid] = ab
            if prop in ("C09", "C10"):
                # reference model of the loader vs the node's real abstract state (coverage note only)
                from . import model as M
                pred = M.Predict()
                for (nid, ev), ab in zip(run["events"], trace["abstract"]):
                    if nid != 0 or ab is None:
                        continue
                    pred.feed(ev)
                    real = runner.pending_groups(ab)
                    if real != pred.pub_pending:
                        for g in sorted(real ^ pred.pub_pending):
                            key = "model_mismatch:%s:%s" % (g, runner.event_group(ev).split(":")[0])
                            res["notes"][key] = res["notes"].get(key, 0) + 1
                        pred.pub_pending = set(real)
                    else:
                        res["notes"]["model_agrees"] = res["notes"].get("model_agrees", 0) + 1
            nontrivial = bool(f)
            ks = hashlib.blake2b(kind_sequence(run).encode(), digest_size=8).hexdigest()
            res["seqs"][ks] = res["seqs"].get(ks, False) or nontrivial
            res["hashes"][i] = trace_hash(run, trace)
            for k, v in trace.get("notes", {}).items():
                res["notes"][k] = res["notes"].get(k, 0) + v
            if len(res["samples"]) < 2 and nontrivial:
                res["samples"].append({"index": i, "events": run["events"], "fired": f})
            if viol:
                res["fail"].append({"index": i, "run": run, "violations": viol})
        if check_replica:
            W.check_replica()
        signal.alarm(0)
    except HarnessError as e:
        signal.alarm(0)
        res["harness_error"] = "run %s: %s" % (i, e)
    except Exception:  # noqa: BLE001
        res["harness_error"] = "run %s: %s" % (i, traceback.format_exc())
    return res


def make_pool(workers, repo, mode="fork"):
    ctx = mp.get_context("fork")
    return cf.ProcessPoolExecutor(max_workers=workers, mp_context=ctx, initializer=_init, initargs=(repo, mode))
