"""Worker-side handles on node processes (fork from the zygote, or fresh subprocess).

The process that imports this module must never import periodictable.
"""
import os
import pickle
import select
import signal
import struct
import subprocess
import sys
import time

VERIF_DIR = os.path.dirname(os.path.dirname(os.path.abspath(__file__)))
PYTHON = sys.executable


class HarnessError(Exception):
    """Something went wrong in the machinery (never a verdict)."""


def repo_root():
    return os.environ.get("VERIF_REPO", "/repo")


def preload():
    """What the zygote imports so that forked nodes start fast."""
    import numpy  # noqa: F401
    import numpy.linalg  # noqa: F401
    import pyparsing  # noqa: F401
    import copy, inspect, pickle, io, contextlib, importlib, json, hashlib  # noqa: F401,E401
    from . import canon, node, node_c10, node_c08  # noqa: F401
    assert "periodictable" not in sys.modules


class NodeHandle(object):
    def __init__(self, repo=None, mode="fork", timeout=120.0):
        self.repo = repo or repo_root()
        self.mode = mode
        self.timeout = timeout
        self.pid = None
        self.popen = None
        self._start()

    def _start(self):
        assert "periodictable" not in sys.modules, "scheduler side imported periodictable"
        c2n_r, c2n_w = os.pipe()
        n2c_r, n2c_w = os.pipe()
        if self.mode == "fork":
            pid = os.fork()
            if pid == 0:
                try:
                    os.close(c2n_w)
                    os.close(n2c_r)
                    signal.signal(signal.SIGINT, signal.SIG_IGN)
                    from . import node
                    node.serve(c2n_r, n2c_w, self.repo)
                finally:
                    os._exit(4)
            self.pid = pid
        else:
            env = dict(os.environ)
            env["PYTHONPATH"] = VERIF_DIR + os.pathsep + env.get("PYTHONPATH", "")
            env.setdefault("OPENBLAS_NUM_THREADS", "1")
            env.setdefault("OMP_NUM_THREADS", "1")
            self.popen = subprocess.Popen(
                [PYTHON, "-m", "sim.node_main", str(c2n_r), str(n2c_w), self.repo],
                pass_fds=(c2n_r, n2c_w), env=env, cwd=VERIF_DIR,
                stdout=subprocess.DEVNULL)
            self.pid = self.popen.pid
        os.close(c2n_r)
        os.close(n2c_w)
        self.wfd, self.rfd = c2n_w, n2c_r
        tag, val = self._recv(timeout=max(self.timeout, 60.0))
        if tag != "ready":
            self.kill()
            raise HarnessError("node failed to start:\n%s" % (val,))

    # -- pipe I/O ---------------------------------------------------------------
    def _read_exact(self, n, deadline):
        chunks = []
        while n:
            left = deadline - time.monotonic()
            if left <= 0:
                raise HarnessError("node timeout")
            r, _, _ = select.select([self.rfd], [], [], left)
            if not r:
                raise HarnessError("node timeout")
            b = os.read(self.rfd, n)
            if not b:
                raise HarnessError("node died (EOF on pipe)")
            chunks.append(b)
            n -= len(b)
        return b"".join(chunks)

    def _recv(self, timeout=None):
        deadline = time.monotonic() + (timeout or self.timeout)
        (n,) = struct.unpack("<I", self._read_exact(4, deadline))
        return pickle.loads(self._read_exact(n, deadline))

    def call(self, *cmd):
        b = pickle.dumps(cmd, 4)
        data = struct.pack("<I", len(b)) + b
        try:
            view = memoryview(data)
            while view:
                k = os.write(self.wfd, view)
                view = view[k:]
            tag, val = self._recv()
        except HarnessError:
            self.kill()
            raise
        except OSError as e:
            self.kill()
            raise HarnessError("node pipe error: %s" % e)
        if tag != "ok":
            self.kill()
            raise HarnessError("node command %r failed:\n%s" % (cmd[0], val))
        return val

    def kill(self):
        if self.pid is None:
            return
        for fd in (self.wfd, self.rfd):
            try:
                os.close(fd)
            except OSError:
                pass
        try:
            os.kill(self.pid, signal.SIGKILL)
        except OSError:
            pass
        try:
            if self.popen is not None:
                self.popen.wait()
            else:
                os.waitpid(self.pid, 0)
        except (OSError, ChildProcessError):
            pass
        self.pid = None

    close = kill

    def __del__(self):
        try:
            self.kill()
        except Exception:  # noqa: BLE001
            pass
