"""ddmin over the event list, then argument simplification (DESIGN 4.2).

Every candidate is executed on fresh node(s), so leftover state cannot fool it.
"""
import copy
import time


class Budget(object):
    def __init__(self, n, deadline=None):
        self.left = n
        self.used = 0
        self.deadline = deadline

    def take(self):
        if self.left <= 0 or (self.deadline is not None and time.time() > self.deadline):
            return False
        self.left -= 1
        self.used += 1
        return True


def ddmin(items, test, budget):
    n = 2
    while len(items) >= 2:
        size = max(1, len(items) // n)
        chunks = [items[i:i + size] for i in range(0, len(items), size)]
        reduced = False
        for i in range(len(chunks)):
            cand = [x for j, c in enumerate(chunks) if j != i for x in c]
            if not cand:
                continue
            if not budget.take():
                return items
            if test(cand):
                items = cand
                n = max(n - 1, 2)
                reduced = True
                break
        if not reduced:
            if size == 1:
                break
            n = min(len(items), n * 2)
    return items


SIMPLE_ATOMS = ([26, 0, 0], [1, 0, 0])


def simpler_events(ev):
    """Candidate simpler versions of one event, simplest first."""
    k = ev[0]
    out = []
    if k == "read":
        for a in SIMPLE_ATOMS:
            if ev[2] != a:
                out.append(ev[:2] + [a] + ev[3:])
        if ev[2][2]:
            out.append(ev[:2] + [[ev[2][0], ev[2][1], 0]] + ev[3:])
        if ev[2][1]:
            out.append(ev[:2] + [[ev[2][0], 0, ev[2][2]]] + ev[3:])
        if ev[4] != "attr":
            out.append(ev[:4] + ["attr"])
    elif k == "probe":
        for a in SIMPLE_ATOMS:
            if ev[2] != a:
                out.append(ev[:2] + [a] + ev[3:])
    elif k == "init" and len(ev) > 3 and ev[3]:
        out.append(ev[:3] + [False])
    elif k in ("mutate", "lookup", "badkey", "dump") and len(ev) > 2 and isinstance(ev[2], list) \
            and len(ev[2]) == 3 and all(isinstance(x, int) for x in ev[2]):
        for a in SIMPLE_ATOMS:
            if ev[2] != a:
                out.append(ev[:2] + [a] + ev[3:])
    return out


def minimise(execute_and_match, run, budget_n=300, deadline=None):
    """execute_and_match(run) -> bool (same violation class still present)."""
    budget = Budget(budget_n, deadline)
    base = copy.deepcopy(run)

    def test(evs):
        cand = dict(base)
        cand["events"] = evs
        return execute_and_match(cand)

    evs = ddmin(list(base["events"]), test, budget)
    # one more single-event sweep (ddmin may stop early when the budget allows more)
    i = 0
    while i < len(evs) and len(evs) > 1:
        cand = evs[:i] + evs[i + 1:]
        if not budget.take():
            break
        if test(cand):
            evs = cand
        else:
            i += 1
    # argument simplification
    for i in range(len(evs)):
        nid, ev = evs[i]
        for s in simpler_events(ev):
            if not budget.take():
                break
            cand = evs[:i] + [[nid, s]] + evs[i + 1:]
            if test(cand):
                evs = cand
                nid, ev = evs[i]
    out = dict(base)
    out["events"] = evs
    out["minimise_runs"] = budget.used
    return out
