"""By-value canonicalisation of everything a node reports.

The result is made of JSON types only (None, bool, int, str, list) so it can be
hashed, compared bitwise, shipped over a pipe and written into replay files.
Nothing here depends on object identity: equal values give equal output whether
or not they are the same object (that is why pickle.dumps is not used: its memo
encodes sharing).

Library records are canonicalised through an explicit per-class list of served
fields plus whatever else is in the instance dictionary *minus* fields known to
be internal caches (DESIGN 3.2).
"""
import hashlib
import json

import numpy as np

# class name -> (served fields read with getattr, internal instance fields to ignore)
RECORDS = {
    "Neutron": (
        ["b_c", "b_c_i", "b_c_complex", "bp", "bp_i", "bm", "bm_i", "coherent",
         "incoherent", "total", "absorption", "abundance", "is_energy_dependent",
         "nsf_table", "_number_density"],
        [],
    ),
    "MagneticFormFactor": (["j0", "j2", "j4", "j6", "J"], []),
    "ActivationResult": ([], []),          # plain column bag: everything in __dict__
    "CromerMannFormula": (["symbol", "a", "b", "c"], []),
}

# instance fields the harness's own mutation events add to a record (made visible so that a
# record shared between tables shows up in the other table's digest); any other extra field in
# an instance dictionary (lazily filled caches, back references) is not a served value
HARNESS_FIELDS = ("newfield", "verif_field", "__verif__")

XRAY_ENERGIES = (8.04, 17.44)      # keV
XRAY_Q = (0.0, 1.0, 5.0)


def _h(b):
    return hashlib.blake2b(b, digest_size=10).hexdigest()


def canon_xray(x, depth):
    """Served view of an Xray record: the table (through the property), the
    interpolated factors, the sld and f0; never the raw _table cache."""
    out = {}
    for name, fn in (
        ("sftable", lambda: x.sftable),
        ("sf", lambda: [x.scattering_factors(energy=e) for e in XRAY_ENERGIES]),
        ("sld", lambda: x.sld(energy=XRAY_ENERGIES[0])),
        ("f0", lambda: x.f0(np.array(XRAY_Q))),
        ("owner", lambda: x.element),
    ):
        try:
            out[name] = canon(fn(), depth + 1)
        except Exception as e:  # noqa: BLE001 - outcome of the read is the value
            out[name] = ["E", type(e).__name__]
    for k in sorted(vars(x)):
        if k not in HARNESS_FIELDS:
            continue      # anything else in the instance dictionary is the library's own business
        out["+" + k] = canon(vars(x)[k], depth + 1)
    return ["R", "Xray", out]


def canon(v, depth=0):
    t = type(v)
    if t is float:
        return ["f", v.hex()]
    if v is None or t is str or t is bool or t is int:
        return v
    if depth > 12:
        return ["DEEP"]
    if isinstance(v, (bool, str)):
        return v
    if isinstance(v, int):
        return v
    if isinstance(v, float):
        return ["f", v.hex()]
    if isinstance(v, complex):
        return ["c", v.real.hex(), v.imag.hex()]
    if isinstance(v, np.generic):
        return ["n", v.dtype.str, canon(v.item(), depth + 1)]
    if isinstance(v, np.ndarray):
        if v.dtype == object:
            return ["ao", list(v.shape), [canon(x, depth + 1) for x in v.ravel().tolist()]]
        a = np.ascontiguousarray(v)
        return ["a", list(a.shape), a.dtype.str, _h(a.tobytes())]
    if isinstance(v, tuple):
        return ["t"] + [canon(x, depth + 1) for x in v]
    if isinstance(v, list):
        return ["l"] + [canon(x, depth + 1) for x in v]
    if isinstance(v, dict):
        items = [(canon(k, depth + 1), canon(x, depth + 1)) for k, x in v.items()]
        items.sort(key=lambda kv: json.dumps(kv[0], sort_keys=True))
        return ["d"] + [[k, x] for k, x in items]
    if isinstance(v, (set, frozenset)):
        items = [canon(x, depth + 1) for x in v]
        items.sort(key=lambda k: json.dumps(k, sort_keys=True))
        return ["s"] + items
    if isinstance(v, BaseException):
        return ["E", type(v).__name__]
    if isinstance(v, bytes):
        return ["b", _h(v), len(v)]
    cls = type(v)
    name = cls.__name__
    mod = getattr(cls, "__module__", "") or ""
    if mod.startswith("periodictable"):
        if name in ("Element", "Isotope", "Ion"):
            return canon_atom(v)
        if name == "Xray":
            return canon_xray(v, depth)
        if name == "Formula":
            return canon_formula(v, depth)
        if name == "PeriodicTable":
            return ["T", table_name_of(v)]
        served, internal = RECORDS.get(name, (None, None))
        if served is not None:
            out = {}
            keys = list(served)
            try:
                extra = sorted(k for k in vars(v) if k not in served and
                               (k in HARNESS_FIELDS or name == "ActivationResult"))
            except TypeError:
                extra = []
            for k in keys + extra:
                try:
                    out[k] = canon(getattr(v, k), depth + 1)
                except Exception as e:  # noqa: BLE001
                    out[k] = ["E", type(e).__name__]
            return ["R", name, out]
        return ["O", mod + "." + name]
    if callable(v):
        return ["F", getattr(v, "__qualname__", name)]
    return ["O", mod + "." + name]


def atom_key(a):
    """(table name, Z, A, q) of an atom.  Reads only the identifying attributes (never a lazy
    name, so no load is triggered) and does not assume the atoms keep them in an instance
    dictionary."""
    q = 0
    A = 0
    if type(a).__name__ == "Ion":
        q = a.charge
        a = a.element
    if type(a).__name__ == "Isotope":
        A = a.isotope
        a = a.element
    return (REAL2EV.get(a.table, a.table), _py(a.number), _py(A), _py(q))


def _py(x):
    """numpy scalars (an atom created through a numpy key keeps it) as plain Python numbers"""
    return x.item() if isinstance(x, np.generic) else x


REAL2EV = {}    # name a table really carries -> name the events use for it (per-run name map)
ALIAS = {}      # private table name -> "public" while a private table is digested


def canon_atom(a):
    try:
        k = atom_key(a)
        return ["A", ALIAS.get(k[0], k[0]), k[1], k[2], k[3]]
    except Exception as e:  # noqa: BLE001
        return ["A?", type(e).__name__]


def table_name_of(t):
    try:
        return REAL2EV.get(t[1].table, t[1].table)
    except Exception:  # noqa: BLE001
        return "?"


def canon_struct(s, depth):
    out = []
    for count, frag in s:
        if isinstance(frag, (list, tuple)):
            out.append([canon(count, depth + 1), canon_struct(frag, depth + 1)])
        else:
            out.append([canon(count, depth + 1), canon(frag, depth + 1)])
    return out


def canon_formula(f, depth):
    out = {}
    try:
        out["structure"] = canon_struct(f.structure, depth + 1)
    except Exception as e:  # noqa: BLE001
        out["structure"] = ["E", type(e).__name__]
    for k in ("density", "name"):
        try:
            out[k] = canon(getattr(f, k), depth + 1)
        except Exception as e:  # noqa: BLE001
            out[k] = ["E", type(e).__name__]
    return ["R", "Formula", out]


def dumps(c):
    return json.dumps(c, sort_keys=True, separators=(",", ":"))


def hash_canon(c):
    return _h(dumps(c).encode())
