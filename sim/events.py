"""Event vocabulary and seeded history generators (scheduler side, pure data).

An event is a JSON list; a history is a list of [node_id, event].  Everything a
run does is drawn here from random.Random(seed_i) *before* any node executes
anything; clients are open loop.  See DESIGN 2.3 and Appendix B.
"""
import hashlib
import random

LAZY_GROUPS = {
    "covalent_radius": ["covalent_radius", "covalent_radius_units", "covalent_radius_uncertainty"],
    "crystal_structure": ["crystal_structure"],
    "neutron": ["neutron", "nuclear_spin"],
    "activation": ["neutron_activation"],
    "xray": ["xray"],
    "emission": ["K_alpha", "K_beta1", "K_alpha_units", "K_beta1_units"],
    "magnetic_ff": ["magnetic_ff"],
}
NAME_GROUP = {n: g for g, ns in LAZY_GROUPS.items() for n in ns}
LAZY_NAMES = [n for ns in LAZY_GROUPS.values() for n in ns]
# eager names: read as perturbation and compared like any other read
EAGER_NAMES = ["mass", "density", "number_density", "interatomic_distance", "abundance",
               "isotopes", "ions", "symbol", "name", "number", "charge"]
PUBLIC_GROUPS = ["base", "mass", "density", "covalent_radius", "crystal_structure", "neutron",
                 "activation", "xray", "emission", "magnetic_ff", "routes", "calc", "calc_public"]
INIT_GROUPS = ["mass", "density", "neutron", "xray", "emission", "covalent_radius",
               "crystal_structure", "magnetic_ff", "activation"]
IMPORTS = ["periodictable.nsf", "periodictable.xsf", "periodictable.activation",
           "periodictable.fasta", "periodictable.formulas", "periodictable.cromermann",
           "periodictable.covalent_radius", "periodictable.crystal_structure",
           "periodictable.magnetic_ff", "periodictable.nsf_tables", "periodictable.plot",
           "periodictable.chemicals", "periodictable.util", "*"]
PROBES = ["getmembers", "dirsweep", "copy", "deepcopy", "pickle:2", "pickle:4", "vars", "str"]
MEANS = ["attr", "hasattr", "getdefault"]
NSF_TABLES = ["energy_dependent_table", "absorption_comparison_table", "coherent_comparison_table",
              "total_comparison_table", "incoherent_comparison_table"]

# atoms that deserve more than their share of attention
SPECIAL = [
    (0, 0, 0), (0, 1, 0),                 # the neutron as element 0 and its isotope
    (1, 0, 0), (1, 1, 0), (1, 2, 0), (1, 3, 0), (1, 2, 1),   # H, D, T
    (79, 0, 0), (79, 197, 0), (27, 0, 0), (27, 59, 0), (13, 27, 0),   # single-isotope elements
    (64, 0, 0), (64, 155, 0), (62, 149, 0), (63, 151, 0), (48, 113, 0),  # energy dependent
    (71, 0, 0), (71, 175, 0), (71, 176, 0),   # natural Lu is mixed from its isotopes
    (54, 0, 0),                            # Xe: total filled in by the loader
    (118, 0, 0), (43, 0, 0), (61, 0, 0),   # no neutron data / no density
    (26, 0, 0), (26, 56, 0), (26, 0, 2), (26, 56, 2), (28, 58, 3), (29, 0, 0), (29, 63, 2),
    (92, 0, 0), (92, 238, 0), (96, 0, 0),
]


HOT_Z = [1, 6, 8, 11, 14, 17, 26, 27, 28, 64, 79]


def run_seed(master, prop, tier, i):
    h = hashlib.sha256(("%d/%s/%s/%d" % (master, prop, tier, i)).encode()).digest()
    return int.from_bytes(h[:8], "big")


class Vocab(object):
    """Tree-dependent vocabulary, obtained from a canonical node."""

    def __init__(self, v):
        self.els = {int(z): e for z, e in v["elements"].items()}
        self.Z = sorted(self.els)
        self.special = [a for a in SPECIAL if self.valid(a)]

    def valid(self, a):
        Z, A, q = a
        e = self.els.get(Z)
        if e is None:
            return False
        if A and A not in e["isotopes"]:
            return False
        if q and q not in e["ions"]:
            return False
        return True

    def atom(self, rng, route=None):
        """A seeded atom [Z, A, q]; route in el|iso|ion|isoion|None(any)."""
        if route is None and rng.random() < 0.4:
            return list(rng.choice(self.special))
        for _ in range(50):
            Z = rng.choice(self.Z)
            e = self.els[Z]
            r = route or rng.choice(["el", "iso", "ion", "isoion"])
            A = q = 0
            if r in ("iso", "isoion"):
                if not e["isotopes"]:
                    continue
                A = rng.choice(e["isotopes"])
            if r in ("ion", "isoion"):
                if not e["ions"]:
                    continue
                q = rng.choice(e["ions"])
            return [Z, A, q]
        return [26, 0, 0]

    def symbol(self, Z):
        return self.els[Z]["symbol"]

    def formula(self, rng, xray_ok=False, natural_only=False, pool=None):
        """A seeded formula string using isotopes and ions.  With a per-run *pool*, earlier
        strings are reused more often than not: state kept by the computed layer (a memo keyed
        too coarsely) only shows when the same compound comes back with other arguments."""
        if pool is not None and pool and rng.random() < 0.6:
            return rng.choice(pool)
        if rng.random() < 0.04:
            return rng.choice(["Xx2O", "Fe{9+}O", "H2O)", "Fe[400]2O3", "Og3"])   # a failing operation
        s = self._formula(rng, xray_ok, natural_only)
        if pool is not None and len(pool) < 4:
            pool.append(s)
        return s

    def _formula(self, rng, xray_ok=False, natural_only=False):
        n = rng.choice([1, 1, 2, 2, 3])
        parts = []
        # half of the formulas draw from a small pool of "hot" elements so that calculator calls
        # within one process keep meeting the same atoms with different other arguments (a memo
        # keyed too coarsely only shows when a key repeats)
        hot = rng.random() < 0.5
        for _ in range(n):
            if hot:
                Z = rng.choice(HOT_Z)
            elif xray_ok:
                Z = rng.randint(1, 92)
            else:
                Z = rng.choice([z for z in self.Z if z > 0])
            e = self.els[Z]
            s = e["symbol"]
            if not natural_only and e["isotopes"] and rng.random() < 0.35:
                s += "[%d]" % rng.choice(e["isotopes"])
            if not natural_only and e["ions"] and rng.random() < 0.25:
                q = rng.choice(e["ions"])
                s += "{%s%s}" % (abs(q) if abs(q) > 1 else "", "+" if q > 0 else "-")
            c = rng.choice([1, 1, 2, 3, 0.5, 12])
            parts.append(s + ("" if c == 1 else str(c)))
        if not natural_only and rng.random() < 0.2:
            # the rest of the grammar: D/T tokens (with charges), explicit groups with counts,
            # separators, density suffixes and mixtures by mass / volume / layer thickness
            k = rng.randrange(6)
            if k == 0:
                parts.append(rng.choice(["D2", "T", "D{+}", "T{+}2", "D3"]))
            elif k == 1:
                parts = ["(" + "".join(parts) + ")" + rng.choice(["2", "3", "0.5"]), rng.choice(["", "+", " "]) + parts[0]]
            elif k == 2:
                parts.append(rng.choice(["@1.3", "@2.1n", "@0.9i"]))
            elif k == 3:
                parts = ["%d%s %s@%s // %s@1.1n" % (rng.choice([5, 30, 50]), rng.choice(["wt%", "%wt", "%vol", "vol%"]),
                                                    "".join(parts), rng.choice(["1.2", "2.5n"]), rng.choice(["H2O", "D2O", parts[0]]))]
            elif k == 4:
                parts = ["%s %s@2.2 // 3nm %s@1.1" % (rng.choice(["2nm", "1um", "5 mm"]), "".join(parts), rng.choice(["D2O", "SiO2", parts[0]]))]
            else:
                parts = ["(" + parts[0] + "(" + "".join(parts[1:] or ["O"]) + ")2)3"]
        return "".join(parts)


# table names are user data: short ones, prefixes of each other, parts of the word "public"
NAME_POOL = ["pub", "p", "T", "T10", "T1 ", "Public", "public2", "li", "\u00e9-table", "", "private", "t1", "c"]


def name_map(seed, p=0.3):
    """Per-run names the library is given for the tables the events call T1, T2, T3 (own stream,
    so that the events of a seed do not depend on whether a map was drawn)."""
    r = random.Random("names:%s" % (seed,))
    if r.random() >= p:
        return None
    picks = r.sample(NAME_POOL, 3)
    return {"T1": picks[0], "T2": picks[1], "T3": picks[2]}


# --------------------------------------------------------------------------- C09
def gen_read(rng, V, tbl="public", name=None, route=None, means=None):
    if name is None:
        name = rng.choice(LAZY_NAMES) if rng.random() < 0.85 else rng.choice(EAGER_NAMES)
    return ["read", tbl, V.atom(rng, route), name, means or rng.choice(MEANS)]


D2O_COMPOUNDS = ["C3H4H[1]NO@1.29n", "C6H10O5@1.5n", "C2H5OH[1]@0.789n", "Gd(NO3)3(H[1]2O)6@2.33",
                 "Sm2O3(H[1]2O)2@3.1", "ErCl3@4.1", "Yb[168]2O3@9.2n", "Lu2O3@9.4"]


def gen_calc(rng, V, tbl="public", which=None, pool=None):
    which = which or rng.choice(
        ["nscat", "nsld", "xsld", "volume", "activation", "d2o_match", "fasta_const",
         "emission_table", "xsld_table", "nsld_table", "nsf_tables", "list", "mff", "f0", "mass",
         "refraction", "composite", "d2o_sld", "fasta_seq", "formula_methods", "show_table", "iadd", "new_isotope", "cromermann"])
    if which == "cromermann":
        Z = rng.choice(HOT_Z) if rng.random() < 0.6 else rng.randint(1, 92)
        e = V.els[Z]
        sym = e["symbol"]
        charge = None
        r = rng.random()
        if e["ions"] and r < 0.3:
            charge = rng.choice(e["ions"])
        elif e["ions"] and r < 0.5:
            q = rng.choice(e["ions"])
            sym += "%d%s" % (abs(q), "+" if q > 0 else "-") if rng.random() < 0.7 or abs(q) > 1 else ("+" if q > 0 else "-")
        return ["calc", tbl, which, sym, rng.choice([[0.0, 1.0, 5.0], 1.0]), charge]
    if which == "new_isotope":
        Z = rng.choice(HOT_Z + [1, 1, 26]) if rng.random() < 0.6 else rng.choice([z for z in V.Z if V.els[z]["isotopes"]])
        isos = V.els[Z]["isotopes"]
        return ["calc", tbl, which, Z, (isos[-1] if isos else 0) + rng.choice([3, 5, 40])]
    if which in ("nscat", "nsld"):
        ev = ["calc", tbl, which, V.formula(rng, pool=pool), rng.choice([1.0, 2.5, 7.9]),
              rng.choice([0.5, 1.798, 4.75, 6.0])]
        opts = {k: True for k in ("energy", "natural", "vector", "str") if rng.random() < 0.2}
        if rng.random() < 0.05:
            # a call that fails part-way (no density / a zero wavelength): whatever it loaded on
            # the way must be complete, and the next good call must not notice
            if rng.random() < 0.6:
                ev[4] = None
            else:
                ev[5] = 0.0
        return ev + ([opts] if opts else [])
    if which == "xsld":
        ev = ["calc", tbl, which, V.formula(rng, xray_ok=True, pool=pool), rng.choice([1.0, 5.24]),
              rng.choice([8.04, 17.44, 1.0, [8.04, 17.44], [1.0, 8.04, 30.0]])]
        opts = {k: True for k in ("wavelength", "natural", "str") if rng.random() < 0.2}
        if rng.random() < 0.05:
            ev[4] = None
        return ev + ([opts] if opts else [])
    if which == "volume":
        ev = ["calc", tbl, which, V.formula(rng)]
        if rng.random() < 0.3:
            ev.append({"packing": rng.choice(["hcp", "bcc", "cubic", "diamond", 0.68])})
        return ev
    if which == "mass":
        return ["calc", tbl, which, V.formula(rng)]
    if which == "activation":
        return ["calc", tbl, which, V.formula(rng), rng.choice([1.0, 10.0]),
                rng.choice([1e5, 1e8]), rng.choice([1.0, 10.0]), rng.choice([[0, 1, 24, 360], [0], [2, 0.5]]),
                rng.choice(["nist", "iaea"])] + ([{"cd": rng.choice([0, 70]), "fast": rng.choice([0, 50])}]
                                                 if rng.random() < 0.3 else [])
    if which in ("d2o_match", "d2o_sld"):
        ev = ["calc", tbl, which, rng.choice(D2O_COMPOUNDS)]
        opts = {}
        r = rng.random()
        if r < 0.3:
            opts["wavelength"] = rng.choice([0.5, 1.0, 4.75])
        elif r < 0.45:
            opts["energy"] = rng.choice([25.0, 300.0])
        if rng.random() < 0.5:
            opts["str"] = True
        return ev + ([opts] if opts else [])
    if which == "nsf_tables":
        return ["calc", tbl, which, rng.choice(NSF_TABLES)]
    if which == "refraction":
        return ["calc", tbl, which, V.formula(rng, xray_ok=True, pool=pool), rng.choice([1.0, 5.24]),
                rng.choice([8.04, 17.44, [8.04, 17.44]])]
    if which == "composite":
        return ["calc", tbl, which, V.formula(rng, pool=pool), V.formula(rng, pool=pool),
                rng.choice([4.75, [0.5, 1.0, 4.0]])]
    if which == "fasta_seq":
        kind = rng.choice(["aa", "dna", "rna"])
        alphabet = {"aa": "ACDEFGHIKLMNPQRSTVWY", "dna": "ACGT", "rna": "ACGU"}[kind]
        return ["calc", tbl, which, kind, "".join(rng.choice(alphabet) for _ in range(rng.choice([1, 3, 8])))]
    if which == "formula_methods":
        return ["calc", tbl, which, V.formula(rng, xray_ok=True, pool=pool), rng.choice([1.0, 3.7])]
    if which == "iadd":
        return ["calc", tbl, which, V.formula(rng, natural_only=True, pool=pool),
                rng.choice(["hill", "replace", "copy", "fasta", "lipid"])]
    if which == "show_table":
        return ["calc", tbl, which, V.formula(rng, natural_only=True), rng.choice([1.0, 2.0]),
                rng.choice(["nist", "iaea"])]
    if which == "list":
        props = rng.choice([["symbol", "K_alpha"], ["symbol", "covalent_radius"], ["symbol", "mass"],
                            ["symbol", "K_beta1", "covalent_radius_uncertainty"],
                            ["symbol", "crystal_structure"], ["symbol", "neutron"],
                            ["symbol", "density", "neutron"]])
        return ["calc", tbl, which, props, " ".join(["%s"] * len(props))]
    if which == "mff":
        ions = [(26, 2), (26, 3), (28, 2), (25, 2), (27, 2), (64, 3), (29, 2), (24, 3)]
        Z, q = rng.choice(ions)
        ref = rng.choice([[Z, 0, q], [Z, 0, 0]])
        return ["calc", tbl, which, ref, q, rng.choice([[0.0, 0.1, 0.2], 0.1, [0.3]]),
                rng.choice(["M_Q", "M_Q", "j0_Q", "j2_Q", "j4_Q", "j6_Q", "J_Q"])]
    if which == "f0":
        at = V.atom(rng, rng.choice(["el", "ion", "isoion"]))
        if rng.random() < 0.5:
            Z = rng.choice([z for z in HOT_Z if V.els[z]["ions"]])
            at = [Z, 0, rng.choice(V.els[Z]["ions"] + [0])]
        return ["calc", tbl, which, at, rng.choice([[0.0, 1.0, 5.0], 1.0, [0.5]])]
    return ["calc", tbl, which]


# calculators that share internal helpers: a burst revisits one compound through one family with
# different secondary arguments (the way a contrast series or an energy scan is really computed)
CALC_FAMILIES = [["iadd"], ["d2o_match", "d2o_sld"], ["nscat", "nsld", "composite", "formula_methods"],
                 ["xsld", "refraction"], ["activation", "show_table"], ["volume"], ["mass"]]


def gen_burst(rng, V, tbl="public", pool=None, n=None):
    fam = rng.choice(CALC_FAMILIES)
    first = gen_calc(rng, V, tbl, rng.choice(fam), pool)
    out = [first]
    for _ in range(n or rng.choice([1, 2])):
        e = gen_calc(rng, V, tbl, rng.choice(fam), pool)
        e[3] = first[3]              # same compound, other arguments
        out.append(e)
    return out


# atoms with data of their own next to their element's: energy-dependent neutron tables
SPECIAL_ISOTOPES = {62: [149], 63: [151], 64: [155, 157], 66: [164], 68: [167], 70: [168, 174], 71: [176],
                    1: [1, 2, 3], 2: [3], 26: [56], 27: [59], 28: [58]}


def gen_relatives_burst(rng, V, tbl="public"):
    """One calculator with the SAME arguments on an atom and on its relatives (element, isotope,
    ion, isotope ion): whatever a calculator leaves on an atom must not be found by the atoms that
    delegate to it."""
    Z = rng.choice(sorted(SPECIAL_ISOTOPES)) if rng.random() < 0.7 else rng.choice([z for z in V.Z if V.els[z]["isotopes"]])
    e = V.els[Z]
    sym = e["symbol"]
    A = rng.choice(SPECIAL_ISOTOPES.get(Z) or e["isotopes"])
    forms = [sym, "%s[%d]" % (sym, A)]
    if e["ions"]:
        q = rng.choice(e["ions"])
        ion = "{%s%s}" % (abs(q) if abs(q) > 1 else "", "+" if q > 0 else "-")
        forms += [sym + ion, "%s[%d]%s" % (sym, A, ion)]
    rng.shuffle(forms)
    which = rng.choice(["nsld", "nscat", "nsld", "composite", "xsld", "activation", "formula_methods", "d2o_sld"])
    wl = rng.choice([0.5, 1.798, 4.75])
    out = []
    for f in forms[:rng.choice([2, 3, 4])]:
        c = f + "2O3"
        if which in ("nsld", "nscat"):
            out.append(["calc", tbl, which, c, 5.0, wl])
        elif which == "composite":
            out.append(["calc", tbl, which, c, "H2O", wl])
        elif which == "xsld":
            out.append(["calc", tbl, which, c, 5.0, 8.04])
        elif which == "activation":
            out.append(["calc", tbl, which, c, 1.0, 1e8, 10.0, [0, 1, 24], "nist"])
        elif which == "formula_methods":
            out.append(["calc", tbl, which, c, 3.7])
        else:
            out.append(["calc", tbl, which, c + "@5", {"wavelength": wl}])
    return out


def c09_burst_strata():
    """Same compound, different secondary argument, once per calculator family."""
    gd = "Gd(NO3)3(H[1]2O)6@2.33"
    return [
        [["calc", "public", "d2o_match", gd, {"str": True}],
         ["calc", "public", "d2o_sld", gd, {"str": True, "wavelength": 0.5}]],
        [["calc", "public", "d2o_sld", gd, {"wavelength": 4.75}], ["calc", "public", "d2o_match", gd, {"energy": 300.0}]],
        [["calc", "public", "nscat", "Gd2O3", 7.4, 1.798, {"str": True}],
         ["calc", "public", "nscat", "Gd2O3", 7.4, 0.5, {"str": True}],
         ["calc", "public", "nsld", "Gd2O3", 2.5, 0.5, {"str": True, "natural": True}]],
        [["calc", "public", "xsld", "Fe2O3", 5.24, 8.04, {"str": True}],
         ["calc", "public", "xsld", "Fe2O3", 5.24, 17.44, {"str": True}],
         ["calc", "public", "refraction", "Fe2O3", 1.0, 8.04]],
        [["calc", "public", "activation", "Co30Fe70", 10.0, 1e8, 10.0, [0, 1, 24], "iaea"],
         ["calc", "public", "activation", "Co30Fe70", 10.0, 1e8, 10.0, [0, 1, 24], "nist"],
         ["calc", "public", "show_table", "Co30Fe70", 1.0, "iaea"]],
        [["calc", "public", "iadd", "C2H6O", "lipid"], ["calc", "public", "iadd", "C2H6O", "lipid"],
         ["calc", "public", "iadd", "C2H6O", "fasta"], ["calc", "public", "iadd", "C2H6O", "fasta"],
         ["calc", "public", "iadd", "C2H6O", "hill"], ["calc", "public", "iadd", "C2H6O", "copy"]],
        # one calculator, the same arguments, an atom and then the atoms that delegate to it
        [["calc", "public", "nsld", "Gd2O3", 5.0, 1.798], ["calc", "public", "nsld", "Gd[155]2O3", 5.0, 1.798],
         ["calc", "public", "nsld", "Gd[157]{3+}2O3", 5.0, 1.798]],
        [["calc", "public", "nscat", "Sm[149]2O3", 5.0, 0.5], ["calc", "public", "nscat", "Sm2O3", 5.0, 0.5],
         ["calc", "public", "nscat", "Lu2O3", 5.0, 0.5], ["calc", "public", "nscat", "Lu[176]2O3", 5.0, 0.5]],
        [["calc", "public", "xsld", "Fe2O3", 5.0, 8.04], ["calc", "public", "xsld", "Fe{3+}2O3", 5.0, 8.04],
         ["calc", "public", "xsld", "Fe[56]{3+}2O3", 5.0, 8.04], ["calc", "public", "xsld", "Fe[56]2O3", 5.0, 8.04]],
        [["calc", "public", "f0", [26, 0, 2], [0.0, 1.0, 5.0]], ["calc", "public", "cromermann", "Fe", [0.0, 1.0, 5.0], None],
         ["calc", "public", "cromermann", "Fe", 1.0, 3], ["calc", "public", "cromermann", "Fe", 1.0, None],
         ["calc", "public", "cromermann", "Fe3+", 1.0, None], ["calc", "public", "f0", [26, 0, 0], 1.0]],
        # an isotope added after the groups were first touched through different routes
        [["read", "public", [1, 0, 0], "neutron", "attr"], ["calc", "public", "new_isotope", 1, 8]],
        [["read", "public", [26, 0, 0], "neutron", "hasattr"], ["calc", "public", "new_isotope", 26, 99]],
        [["calc", "public", "nsld", "H2O", 1.0, 4.75], ["calc", "public", "new_isotope", 1, 8]],
        [["import", "periodictable.fasta"], ["calc", "public", "new_isotope", 1, 8]],
        [["init", "public", "neutron", False], ["calc", "public", "new_isotope", 8, 40],
         ["init", "public", "activation", False], ["calc", "public", "new_isotope", 27, 99]],
        [["read", "public", [1, 2, 0], "neutron", "attr"], ["calc", "public", "new_isotope", 1, 8],
         ["read", "public", [26, 0, 0], "neutron_activation", "attr"], ["calc", "public", "new_isotope", 26, 99]],
        [["calc", "public", "volume", "Fe2O3", {"packing": "bcc"}], ["calc", "public", "volume", "Fe2O3"],
         ["calc", "public", "formula_methods", "Fe2O3", 3.7], ["calc", "public", "formula_methods", "Fe2O3", 1.0]],
    ]


def gen_c09_event(rng, V, cfg, pool=None):
    fams = cfg["families"]
    fam = rng.choice(fams)
    if fam == "reader":
        return gen_read(rng, V)
    if fam == "calculator":
        return gen_calc(rng, V, pool=pool)
    if fam == "importer":
        return ["import", rng.choice(IMPORTS)]
    if fam == "init":
        return ["init", "public", rng.choice(INIT_GROUPS), rng.random() < 0.3]
    if fam == "prober":
        return ["probe", "public", V.atom(rng), rng.choice(PROBES)]
    if fam == "extension":
        return ["ext", rng.choice(["discoverer", "discoverer_read", "shelltable"])]
    raise ValueError(fam)


C09_FAMILIES = ["reader", "calculator", "importer", "init", "prober"]


def c09_strata(V):
    """First events that every batch must contain at least once (DESIGN 2.3)."""
    out = []
    routes = [[26, 0, 0], [26, 56, 0], [26, 0, 2], [26, 56, 2], [1, 2, 0], [118, 0, 0], [0, 0, 0],
              [79, 197, 0], [64, 155, 0], [71, 0, 0]]
    for name in LAZY_NAMES:
        for at in routes:
            for means in MEANS:
                out.append(["read", "public", at, name, means])
    for g in INIT_GROUPS:
        for reload in (False, True):
            out.append(["init", "public", g, reload])
    for m in IMPORTS:
        out.append(["import", m])
    for which in ["nscat", "nsld", "xsld", "volume", "activation", "d2o_match", "fasta_const",
                  "emission_table", "xsld_table", "nsld_table", "list", "mff", "f0", "refraction", "composite",
                  "d2o_sld", "fasta_seq", "formula_methods", "show_table", "iadd", "new_isotope", "cromermann"]:
        out.append(("calc", which))
    for t in NSF_TABLES:
        out.append(["calc", "public", "nsf_tables", t])
    for how in PROBES:
        for at in ([26, 0, 0], [26, 56, 0], [26, 0, 2]):
            out.append(["probe", "public", at, how])
    return out
