"""./check <c08|c09|c10> [--tier quick|thorough]; ./check replay <file>; self-tests.

Exit protocol (DESIGN 2.5): 0 held; 1 violation (VIOLATION line, after the
minimised history reproduced from its replay file in fresh interpreters);
2 harness error (never a VIOLATION line, never 0).
"""
import argparse
import faulthandler
import hashlib
import json
import os
import platform
import random
import sys
import time
import traceback

from . import events as E
from . import known, minimise, pool, proc, runner
from .proc import HarnessError, NodeHandle

VERIF_DIR = proc.VERIF_DIR
FORMAT = 1
DEFAULT_SEED = 20261004

QUICK_RUNS = {"C09": 1800, "C10": 1100, "C08": 6000}
MIN_RUNS = {"C09": 600, "C10": 330, "C08": 800}
GEN_SIZE = 512
MINIMISE_WALL_S = 240
TITLES = {"C08": "identity caches and pickling across 1-2 interpreters",
          "C09": "lazy loading vs history", "C10": "private-table isolation"}


def log(*a):
    print(*a, flush=True)


def versions():
    import numpy
    import pyparsing
    return {"python": platform.python_version(), "numpy": numpy.__version__,
            "pyparsing": pyparsing.__version__}


# ------------------------------------------------------------------ canonical run
def canonical(repo):
    """Fresh subprocess interpreter, full digest twice; forked node must agree."""
    n = NodeHandle(repo, "subprocess", timeout=120.0)
    try:
        vocab = n.call("vocab")
        d1 = n.call("digest", "public", E.PUBLIC_GROUPS, None, False)
        d2 = n.call("digest", "public", E.PUBLIC_GROUPS, None, False)
    finally:
        n.kill()
    h1 = {g: h for g, (h, _) in d1.items()}
    h2 = {g: h for g, (h, _) in d2.items()}
    unstable = sorted(g for g in h1 if h1[g] != h2[g])
    n = NodeHandle(repo, "fork", timeout=120.0)
    try:
        d3 = n.call("digest", "public", E.PUBLIC_GROUPS, None, False)
    finally:
        n.kill()
    h3 = {g: h for g, (h, _) in d3.items()}
    if h3 != h1:
        raise HarnessError("forked canonical run differs from fresh one: %r" %
                           sorted(g for g in h1 if h1[g] != h3[g]))
    return vocab, h1, unstable


# ------------------------------------------------------------------ replay files
def write_replay(prop, master, tier, run, viol, target, original_events, fired, repo):
    os.makedirs(os.path.join(VERIF_DIR, "replays"), exist_ok=True)
    body = {
        "format": FORMAT, "property": prop, "master_seed": master, "tier": tier,
        "run_index": run.get("index"), "run_seed": run.get("seed"),
        "versions": versions(), "repo": repo,
        "events": run["events"], "cfg": run.get("cfg"),
        "violation_class": list(target),
        "violations": viol,
        "fired": fired,
        "original_events": original_events,
        "minimise_runs": run.get("minimise_runs"),
    }
    blob = json.dumps(body, sort_keys=True, indent=1)
    h = hashlib.sha256(json.dumps(run["events"], sort_keys=True).encode()).hexdigest()[:10]
    path = os.path.join(VERIF_DIR, "replays", "%s-%s-%s.json" % (prop, run.get("seed"), h))
    with open(path, "w") as f:
        f.write(blob)
    return path


def replay_file(path, W=None, quiet=False, strict=True):
    """Re-execute a replay file in fresh subprocess interpreters.
    Returns (reproduced, violations)."""
    with open(path) as f:
        body = json.load(f)
    own = W is None
    if own:
        W = runner.Worker(proc.repo_root())
    try:
        run = {"prop": body["property"], "seed": body.get("run_seed"), "index": body.get("run_index"),
               "cfg": body.get("cfg"), "events": body["events"]}
        trace = W.execute(run, mode="subprocess")
        viol = W.judge(run, trace)
    finally:
        if own:
            W.close()
    target = tuple(body["violation_class"])
    got = {runner.triple(v) for v in viol}
    ok = target in got
    if ok and strict and body.get("violations"):
        want = [v for v in body["violations"] if runner.triple(v) == target]
        have = [v for v in viol if runner.triple(v) == target]
        ok = bool(want) and bool(have) and _observed(want[0]) == _observed(have[0])
    if not quiet:
        log("replay %s: %s (class %s; violations now: %s)" % (
            path, "REPRODUCED" if ok else "not reproduced", list(target), sorted(got)))
    return ok, viol


def _observed(v):
    if "keys" in v:
        return [(k["key"], k["observed"]) for k in v["keys"]]
    return v.get("observed")


# ------------------------------------------------------------------ the check
def context_of(run, trace):
    """Per-event context used by known-finding triggers (pending public groups before each event)."""
    prev = dict(trace.get("init_abstract", {}))
    pend = []
    for (nid, ev), ab in zip(run["events"], trace["abstract"]):
        before = prev.get(nid)
        pend.append(sorted(runner.pending_groups(before)) if before else None)
        if ab is not None:
            prev[nid] = ab
    return {"pending": pend}


def check(prop, tier, master, workers, budget_s, nruns, repo, write_evidence=True):
    t0 = time.time()
    log("VERIF_SEED=%d property=%s tier=%s workers=%d repo=%s" % (master, prop, tier, workers, repo))
    vocab, canon_hashes, unstable = canonical(repo)
    V = E.Vocab(vocab)
    findings = known.open_findings(prop)
    status = {"violations": 0, "harness": []}
    degraded = bool(unstable)
    if degraded:
        # Reading the public table twice in one fresh interpreter gave different values.  That is
        # itself a violation of C09 ("how many times"); it is reported through the ordinary path
        # (oracle O3 on a tiny batch, minimised, replayed).  The other properties cannot be judged
        # against a reference that does not hold still.
        if prop != "C09":
            # not this property's business: leave the unstable groups out of every comparison
            log("note: canonical digest is not idempotent for groups %r (a C09 violation, reported by "
                "./check c09); %s is judged on the remaining groups" % (unstable, prop))
            runner.UNSTABLE = set(unstable)
            degraded = False
        else:
            log("note: canonical digest is not idempotent for groups %r; running a reduced batch" % (unstable,))
            nruns = min(nruns, 48)
            tier = "quick"

    W = runner.Worker(repo)      # local worker: minimisation, replay, determinism cells
    if any(W.canon_hashes[g] != canon_hashes[g] for g in canon_hashes if g not in unstable):
        raise HarnessError("worker replica digest differs from canonical digest")

    # known findings must still reproduce from their committed replay files
    live = []
    kf_lines = []
    for k in findings:
        path = os.path.join(VERIF_DIR, k["replay"])
        ok, _ = replay_file(path, W, quiet=True, strict=False)
        if ok:
            live.append(k)
            kf_lines.append("KNOWN-FINDING: property=%s %s [%s]" % (prop, k["what"], k["id"]))
        else:
            log("note: known finding %s no longer reproduces from %s; its rule is disabled" % (k["id"], k["replay"]))

    # repaired defects must stay repaired: their committed replay files are re-executed first
    # (a 'fixed' entry suppresses nothing; if the history fails again it is a violation)
    regressions = []
    for k in known.load(prop):
        if k.get("status") == "fixed" and k.get("replay"):
            path = os.path.join(VERIF_DIR, k["replay"])
            if os.path.exists(path):
                ok, _ = replay_file(path, W, quiet=True, strict=False)
                if ok:
                    regressions.append((k["id"], path))

    agg = {"n": 0, "steps": 0, "fired": {}, "states": set(), "trans": set(), "seqs": {}, "pairs": set(),
           "fail": [], "hashes": {}, "samples": [], "notes": {}}
    last_new_state_run = 0
    gen_log = []
    bias = None
    ex = pool.make_pool(workers, repo)
    try:
        lo = 0
        gen = 0
        while True:
            if tier == "quick":
                hi = nruns
            else:
                hi = lo + GEN_SIZE
            chunk = 8
            tasks = []
            idx = lo
            while idx < hi:
                tasks.append((prop, master, tier, idx, min(idx + chunk, hi), bias,
                              (idx // chunk) % 16 == 15 and not degraded))
                idx += chunk
            nstates = len(agg["trans"])
            for res in ex.map(pool.run_chunk, tasks):
                if "harness_error" in res:
                    status["harness"].append(res["harness_error"])
                agg["n"] += res["n"]
                agg["steps"] += res["steps"]
                for k, v in res["fired"].items():
                    agg["fired"][k] = agg["fired"].get(k, 0) + v
                for k, v in res["notes"].items():
                    agg["notes"][k] = agg["notes"].get(k, 0) + v
                agg["states"] |= res["states"]
                agg["pairs"] |= res["pairs"]
                agg["trans"] |= res["trans"]
                for k, v in res["seqs"].items():
                    agg["seqs"][k] = agg["seqs"].get(k, False) or v
                agg["fail"] += res["fail"]
                agg["hashes"].update(res["hashes"])
                if len(agg["samples"]) < 6:
                    agg["samples"] += res["samples"][:1]
            if len(agg["trans"]) > nstates:
                last_new_state_run = hi
            gen_log.append({"generation": gen, "runs": agg["n"], "transitions": len(agg["trans"]),
                            "state_event_pairs": len(agg["pairs"])})
            lo = hi
            gen += 1
            if status["harness"]:
                break
            if tier == "quick" or time.time() - t0 > budget_s:
                break
            # greybox bias for the next generation = union of what earlier generations saw
            bias = make_bias(agg)
    finally:
        ex.shutdown(wait=True, cancel_futures=True)

    # determinism sub-check: same runs, fork and fresh subprocess, in this process
    det = {"cells": 0, "mismatch": []}
    if not status["harness"] and not degraded:
        ndet = 12 if tier == "quick" else 40
        step = max(1, agg["n"] // ndet)
        for i in list(range(0, agg["n"], step))[:ndet]:
            run = pool.gen_run(prop, master, tier, i, V, bias_for_index(i, None))
            if tier != "quick" and i >= GEN_SIZE:
                continue   # later generations depend on the bias table; covered by selftest
            for mode in ("fork", "subprocess"):
                tr = W.execute(run, mode=mode)
                det["cells"] += 1
                if pool.trace_hash(run, tr) != agg["hashes"].get(i):
                    det["mismatch"].append([i, mode])
        if det["mismatch"]:
            status["harness"].append("determinism sub-check failed: %r" % det["mismatch"][:5])

    # triage failures
    known_hits = {}
    classes = {}
    for f in agg["fail"]:
        triples = {runner.triple(v) for v in f["violations"]}
        explained, rest = known.explain(live, f["run"], None, triples)
        for t, kid in explained.items():
            known_hits[kid] = known_hits.get(kid, 0) + 1
        for t in rest:
            cur = classes.get(t)
            if cur is None or len(f["run"]["events"]) < len(cur["run"]["events"]):
                classes[t] = f
    reported = []
    unreproduced = []
    min_stats = []
    if classes and not status["harness"]:
        order = sorted(classes, key=lambda t: (len(classes[t]["run"]["events"]), t))
        covered = set()
        t_min0 = time.time()
        for t in order:
            if len(reported) >= 5:
                break
            if t in covered:
                continue
            f = classes[t]

            def still(cand, t=t):
                tr = W.execute(cand, want_abstract=False)
                vv = W.judge(cand, tr)
                ts = {runner.triple(v) for v in vv}
                _, rest = known.explain(live, cand, None, ts)
                return t in rest
            left = MINIMISE_WALL_S - (time.time() - t_min0)
            if left > 0:
                small = minimise.minimise(still, f["run"], 150, deadline=time.time() + left)
            else:
                small = dict(f["run"], minimise_runs=0, not_minimised="wall-clock cap for minimisation reached")
            tr = W.execute(small, mode="subprocess")
            vv = W.judge(small, tr)
            ts = {runner.triple(v) for v in vv}
            if t not in ts:
                unreproduced.append("violation %r did not reproduce in a fresh interpreter" % (t,))
                continue
            path = write_replay(prop, master, tier, small, vv, t, f["run"]["events"],
                                runner.fired(small, tr), repo)
            ok, _ = replay_file(path, W, quiet=True)
            if not ok:
                unreproduced.append("replay file %s did not reproduce" % path)
                continue
            covered |= ts
            reported.append((t, path, small))
            min_stats.append({"class": list(t), "from": len(f["run"]["events"]),
                              "to": len(small["events"]), "runs": small.get("minimise_runs")})
    if unreproduced and not reported:
        # nothing that failed in the batch could be reproduced: that is a defect of the harness
        status["harness"] += unreproduced
    if not degraded:
        W.check_replica()
    W.close()

    wall = time.time() - t0
    nontrivial = sum(1 for v in agg["seqs"].values() if v)
    ev = {
        "property_id": prop, "tier": tier, "seed": master, "level": "exploration",
        "wall_s": round(wall, 2), "violations": len(reported) + len(regressions),
        "coverage": {
            "evaluations": agg["n"],
            "distinct_nontrivial": nontrivial,
            "rule": ("Each evaluation is one simulated run: a seeded history of API events executed on fresh "
                     "interpreter node(s) forked from a zygote that has not imported periodictable. Distinct = "
                     "distinct event-kind sequences (node, kind, table, name/group, route, means; atoms and numeric "
                     "arguments abstracted), counted by hash. Non-trivial = at least one fault kind fired in the run "
                     "(probe/import/init/calculator/non-canonical-route first touch of a pending group, retry, reload, "
                     "failing operation, restart, reordered/duplicated delivery, private init while public pending...), "
                     "as confirmed from the node's abstract loader state before/after the event."),
            "samples": agg["samples"][:5] or [{"note": "no non-trivial sample captured"}],
            "distinct_sequences_total": len(agg["seqs"]),
            "steps_executed": agg["steps"],
            "simulated_time": "there is no clock in the library; simulated time is reported as steps (events executed)",
            "runs_per_hour": int(agg["n"] / wall * 3600) if wall > 0 else 0,
            "fault_kinds_fired": dict(sorted(agg["fired"].items())),
            "fault_kinds_blind": [k for k in expected_faults(prop) if not agg["fired"].get(k)],
            "abstract_states": len(agg["states"]),
            "abstract_transitions": len(agg["trans"]),
            "last_run_with_new_transition": last_new_state_run,
            "state_event_pairs": len(agg["pairs"]),
            "pending_subsets_reached": len({p.split("|")[0] for p in agg["pairs"]}),
            "pending_subsets_possible": 2 ** len(E.LAZY_GROUPS),
            "generations": gen_log[-40:],
            "components": {"real": ["CPython %s" % platform.python_version(), "periodictable (working tree)",
                                    "numpy", "pyparsing", "pickle", "data files"], "stubbed": []},
            "determinism_subcheck": det,
            "known_findings_reproduced": [k["id"] for k in live],
            "fixed_findings_replayed": len([k for k in known.load(prop) if k.get("status") == "fixed"]),
            "fixed_findings_regressed": [kid for kid, _ in regressions],
            "known_finding_hits": known_hits,
            "failing_runs": len(agg["fail"]),
            "minimisation": min_stats,
            "model_notes": dict(sorted(agg["notes"].items())),
            "canonical_digest": canon_hashes,
            "canonical_groups_not_idempotent": list(unstable),
            "workers": workers,
        },
        "assumptions": [
            "seeded sampling of histories, not enumeration: a clean batch is evidence, not proof",
            "CPython, numpy, pyparsing, pickle and the file system are trusted",
            "the tree is compared with itself (canonical run + reference replica recomputed on every invocation)",
            "known-finding rules attribute matching symptoms in histories that contain the known trigger",
        ],
    }
    if write_evidence:
        os.makedirs(os.path.join(VERIF_DIR, "evidence"), exist_ok=True)
        with open(os.path.join(VERIF_DIR, "evidence", prop + ".json"), "w") as f:
            json.dump(ev, f, indent=1, sort_keys=True, default=str)

    log("%s %s: %d runs, %d steps, %.1fs (%.0f runs/h), %d distinct non-trivial sequences, "
        "%d abstract states, %d transitions, failing runs %d" % (
            prop, tier, agg["n"], agg["steps"], wall, agg["n"] / wall * 3600, nontrivial,
            len(agg["states"]), len(agg["trans"]), len(agg["fail"])))
    log("fault kinds fired: %s" % json.dumps(dict(sorted(agg["fired"].items()))))
    for line in kf_lines:
        log(line)
    for u in unreproduced:
        log("note: " + u)
    if status["harness"]:
        for h in status["harness"][:10]:
            log("HARNESS-ERROR: %s" % h)
        return 2
    for kid, path in regressions:
        log("  repaired defect %s reproduces again from its committed replay file" % kid)
        log("VIOLATION property=%s replay=%s" % (prop, path))
    if regressions and not reported:
        return 1
    if reported:
        for t, path, small in reported:
            names = (small.get("cfg") or {}).get("names")
            log("  class %s minimal history: %s%s" % (list(t), json.dumps(small["events"]),
                                                    " table names: " + json.dumps(names) if names else ""))
            log("VIOLATION property=%s replay=%s" % (prop, path))
        return 1
    log("OK property=%s held on everything explored" % prop)
    return 0


def expected_faults(prop):
    base = ["probe_first_touch", "init_first_touch", "import_first_touch", "calc_first_touch",
            "read_first_touch_noncanonical_route", "retry", "retry_reload", "op_raised"]
    if prop == "C10":
        base += ["private_init_while_public_pending", "private_assignment_while_public_pending",
                 "fail_op_missing_prerequisite", "retry_after_failed_init", "duplicate_table_name", "mutation",
                 "mutation_walk", "second_table_after_first_modified", "deliver_cross_node", "deliver_duplicate",
                 "restart"]
    if prop == "C08":
        base = ["retry", "op_raised", "bad_key", "restart", "deliver_cross_node", "deliver_duplicate",
                "unpickle_without_table", "unpickle_missing_isotope", "duplicate_table_name",
                "add_isotope_out_of_order", "table_handle_dropped"]
    return base


def make_bias(agg):
    """Bias table for the next greybox generation: (pending public groups, event group) pairs
    executed by earlier generations (a function of VERIF_SEED and the tree only)."""
    return {"pairs": frozenset(agg["pairs"])}


def bias_for_index(i, bias):
    return bias if i >= GEN_SIZE else None


# ------------------------------------------------------------------ CLI
def main(argv=None):
    faulthandler.enable()
    import signal
    faulthandler.register(signal.SIGUSR1, all_threads=True)
    ap = argparse.ArgumentParser(prog="check")
    ap.add_argument("what")
    ap.add_argument("arg", nargs="?")
    ap.add_argument("--tier", default=os.environ.get("VERIF_TIER", "quick"))
    ap.add_argument("--runs", type=int, default=None)
    ap.add_argument("--workers", type=int, default=int(os.environ.get("VERIF_WORKERS", "16")))
    ap.add_argument("--budget", type=float, default=float(os.environ.get("VERIF_BUDGET_S", "900")))
    ap.add_argument("--no-evidence", action="store_true")
    a = ap.parse_args(argv)
    master = int(os.environ.get("VERIF_SEED", DEFAULT_SEED))
    repo = proc.repo_root()
    what = a.what.lower()
    try:
        proc.preload()
        if what in ("c08", "c09", "c10"):
            prop = what.upper()
            tier = a.tier if a.tier in ("quick", "thorough") else "quick"
            workers = max(1, min(a.workers, os.cpu_count() or 1))
            a.workers = workers
            # fewer cores: fewer seeded runs, but never fewer than the stratified prefix
            nruns = a.runs or max(MIN_RUNS[prop], int(QUICK_RUNS[prop] * min(1.0, workers / 16.0)))
            return check(prop, tier, master, a.workers, a.budget, nruns, repo, not a.no_evidence)
        if what == "replay":
            ok, viol = replay_file(a.arg)
            for v in viol:
                log("  " + json.dumps(v)[:600])
            return 1 if ok else 0
        if what == "record":
            # ./check record <history.json>: run one explicit history through execute/judge/minimise/replay
            with open(a.arg) as f:
                body = json.load(f)
            W = runner.Worker(repo)
            run = {"prop": body["property"], "seed": body.get("run_seed", 0), "index": None, "cfg": None,
                   "events": body["events"]}
            tr = W.execute(run, mode="subprocess")
            viol = W.judge(run, tr)
            seen = set()
            for t in sorted({runner.triple(v) for v in viol}):
                if t in seen:
                    continue

                def still(cand, t=t):
                    trc = W.execute(cand, want_abstract=False)
                    return t in {runner.triple(v) for v in W.judge(cand, trc)}
                small = minimise.minimise(still, run, 200)
                tr2 = W.execute(small, mode="subprocess")
                vv = W.judge(small, tr2)
                seen |= {runner.triple(v) for v in vv}
                path = write_replay(run["prop"], master, "quick", small, vv, t, run["events"],
                                    runner.fired(small, tr2), repo)
                log("recorded class %s -> %s  history %s" % (list(t), path, json.dumps(small["events"])))
            W.close()
            return 0
        if what == "selftest-determinism":
            from . import selftest
            return selftest.determinism(master, repo, a.workers)
        if what == "selftest-mutants":
            from . import selftest
            return selftest.mutants(master, a.workers, a.arg)
        if what == "selftest-benign":
            from . import selftest
            return selftest.benign(master, a.workers, a.arg)
        if what == "probe-io":
            from . import probe_io
            return probe_io.main(master, repo)
        log("unknown command %r" % what)
        return 2
    except HarnessError as e:
        log("HARNESS-ERROR: %s" % e)
        return 2
    except Exception:  # noqa: BLE001
        log("HARNESS-ERROR: " + traceback.format_exc())
        return 2


if __name__ == "__main__":
    sys.exit(main())
