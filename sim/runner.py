"""Execute one history on fresh node(s) and judge it (runs inside a worker).

A worker owns one long-lived *reference replica* (DESIGN 3.1): a node whose
public table was loaded in the canonical (digest) order and which only ever
answers reads.
"""
import json
import time

from . import canon as C
from . import events as E
from . import proc
from .proc import HarnessError, NodeHandle

REPLICA_KINDS = ("read", "calc", "probe", "import")
# digest groups whose canonical value is not idempotent on this tree (a C09 violation, reported by
# the C09 check); C10 leaves them out of every comparison instead of giving up (forked workers
# inherit this module state)
UNSTABLE = set()


def stable_groups():
    return [g for g in E.PUBLIC_GROUPS if g not in UNSTABLE]
SCHED_KINDS = ("restart",)


def ekey(ev):
    return json.dumps(ev, sort_keys=True, separators=(",", ":"))


def classify(expected, observed):
    """Kind of difference between two canonical values."""
    if isinstance(observed, list) and observed[:1] == ["E"]:
        if isinstance(expected, list) and expected[:1] == ["E"]:
            return "exception_changed:%s" % observed[1]
        if observed[1] == "AttributeError":
            return "attribute_error"
        return "exception:%s" % observed[1]
    if isinstance(expected, list) and expected[:1] == ["E"]:
        return "no_exception"
    if observed is None and expected is not None:
        return "none"
    if is_placeholder(observed) and not is_placeholder(expected):
        return "placeholder"
    if observed == "<default>" or observed is False and expected is True:
        return "absent"
    return "value_changed"


def is_placeholder(v):
    """The class-level 'missing' Neutron record: every tabulated field None."""
    if isinstance(v, list) and len(v) == 3 and v[0] == "R" and v[1] == "Neutron":
        f = v[2]
        return all(f.get(k) is None for k in ("b_c", "coherent", "total", "absorption", "b_c_complex"))
    return False


class Worker(object):
    def __init__(self, repo=None, mode="fork"):
        proc.preload()
        self.repo = repo or proc.repo_root()
        self.mode = mode
        self.replica = None
        self.canon_hashes = None
        self.ref_cache = {}
        self.runs_since_check = 0
        self.start_replica()

    # -- reference replica ------------------------------------------------------
    def start_replica(self):
        if self.replica is not None:
            self.replica.kill()
        self.replica = NodeHandle(self.repo, "fork", timeout=120.0)
        d = self.replica.call("digest", "public", E.PUBLIC_GROUPS, None, False)
        self.canon_hashes = {g: h for g, (h, _) in d.items()}
        self.ref_cache = {}

    def check_replica(self):
        d = self.replica.call("digest", "public", E.PUBLIC_GROUPS, None, False)
        now = {g: h for g, (h, _) in d.items()}
        drift = sorted(g for g in now if now[g] != self.canon_hashes[g] and g not in UNSTABLE)
        if drift:
            raise HarnessError("reference replica drifted: %r" % drift)

    def ref_outcome(self, ev):
        k = ekey(ev)
        if k not in self.ref_cache:
            (out,) = self.replica.call("fork_eval", [ev])
            self.ref_cache[k] = out
        return self.ref_cache[k]

    def vocab(self):
        if getattr(self, "_vocab", None) is None:
            self._vocab = E.Vocab(self.replica.call("vocab"))
        return self._vocab

    def ref_detail(self, group):
        d = self.replica.call("digest", "public", [group], None, True)
        return d[group][1]

    def close(self):
        if self.replica is not None:
            self.replica.kill()
            self.replica = None

    # -- execution --------------------------------------------------------------
    def execute(self, run, mode=None, want_abstract=True):
        """Run the history; returns the trace (outcomes, abstract states, digests)."""
        mode = mode or self.mode
        nodes = {}
        msgs = {}
        outcomes = [None] * len(run["events"])
        abstracts = [None] * len(run["events"])
        trace = {"outcomes": outcomes, "abstract": abstracts, "init_abstract": {}, "steps": 0}

        def node(nid):
            if nid not in nodes:
                nodes[nid] = NodeHandle(self.repo, mode)
                names = (run.get("cfg") or {}).get("names")
                if names:
                    nodes[nid].call("batch", [["names", names]], False)
                if want_abstract:
                    trace["init_abstract"][nid] = nodes[nid].call("abstract")
            return nodes[nid]

        try:
            pending = []   # (index, event) for the same node

            def flush(nid):
                if not pending:
                    return
                res = node(nid).call("batch", [e for _, e in pending], want_abstract)
                for (i, ev), (out, ab) in zip(pending, res):
                    if ev[0] in ("dump", "dump_formula", "dump_container") and isinstance(out, list) and out[:1] == ["B"]:
                        msgs[ev[1]] = out[1]
                        out = ["B", C._h(out[1]), len(out[1])]
                    outcomes[i] = out
                    abstracts[i] = ab
                del pending[:]

            cur = None
            for i, (nid, ev) in enumerate(run["events"]):
                if cur is not None and nid != cur:
                    flush(cur)
                cur = nid
                if ev[0] == "restart":
                    flush(nid)
                    if nid in nodes:
                        nodes[nid].kill()
                        del nodes[nid]
                    node(nid)
                    outcomes[i] = "ok"
                    abstracts[i] = trace["init_abstract"].get(nid)
                    continue
                if ev[0] == "load":
                    flush(nid)
                    data = msgs.get(ev[1])
                    if data is None:
                        outcomes[i] = ["E", "NoSuchMessage"]
                        continue
                    ev = ["load_bytes", data] + list(ev[2:])
                pending.append((i, ev))
            if cur is not None:
                flush(cur)
            trace["steps"] = len(run["events"])
            self.finish(run, trace, nodes, node)
        finally:
            for n in nodes.values():
                n.kill()
        return trace

    def finish(self, run, trace, nodes, node):
        prop = run["prop"]
        if prop == "IO":
            trace["digest"] = node(0).call("digest", "public", E.PUBLIC_GROUPS, self.canon_hashes, False)
            return
        if prop == "C09":
            n = node(0)
            d1 = n.call("digest", "public", E.PUBLIC_GROUPS, self.canon_hashes, False)
            d2 = n.call("digest", "public", E.PUBLIC_GROUPS, self.canon_hashes, False)
            trace["digest"] = d1
            trace["digest2"] = {g: h for g, (h, _) in d2.items()}
            trace["final_abstract"] = n.call("abstract")
        else:
            from . import judge_c10, judge_c08
            if prop == "C10":
                judge_c10.finish(self, run, trace, nodes, node)
            elif prop == "C10CF":
                judge_c10.finish_cf(self, run, trace, nodes, node)
            elif prop == "C10OWN":
                judge_c10.finish_own(self, run, trace, nodes, node)
            else:
                judge_c08.finish(self, run, trace, nodes, node)

    # -- judging ----------------------------------------------------------------
    def judge(self, run, trace):
        prop = run["prop"]
        if prop == "C09":
            return self.judge_c09(run, trace)
        from . import judge_c10, judge_c08
        if prop == "C10":
            return judge_c10.judge(self, run, trace)
        return judge_c08.judge(self, run, trace)

    def judge_c09(self, run, trace):
        viol = []
        for i, (nid, ev) in enumerate(run["events"]):
            out = trace["outcomes"][i]
            kind = ev[0]
            if kind in REPLICA_KINDS:
                exp = self.ref_outcome(ev)
                if out != exp:
                    viol.append({"oracle": "O1", "role": "public", "group": event_group(ev),
                                 "kind": classify(exp, out), "event": i,
                                 "expected": exp, "observed": out})
            elif kind == "init":
                if out != "ok":
                    viol.append({"oracle": "O1", "role": "public", "group": event_group(ev),
                                 "kind": classify("ok", out), "event": i,
                                 "expected": "ok", "observed": out})
        viol += self.digest_violations(trace["digest"], "O2", "public")
        for g, h in trace["digest2"].items():
            if h != trace["digest"][g][0]:
                viol.append({"oracle": "O3", "role": "public", "group": g, "kind": "not_idempotent",
                             "event": None, "expected": trace["digest"][g][0], "observed": h})
        return viol

    def digest_violations(self, digest, oracle, role, ref_hashes=None, ref_detail_fn=None, limit=6):
        viol = []
        ref_hashes = ref_hashes or self.canon_hashes
        for g, (h, detail) in digest.items():
            if h == ref_hashes.get(g):
                continue
            ref = (ref_detail_fn or self.ref_detail)(g)
            kinds = {}
            for k in sorted(set(ref) | set(detail or {})):
                a, b = ref.get(k, ["ABSENT"]), (detail or {}).get(k, ["ABSENT"])
                if a != b:
                    kinds.setdefault(classify(a, b), []).append((k, a, b))
            for kd, items in sorted(kinds.items()):
                viol.append({"oracle": oracle, "role": role, "group": g, "kind": kd, "event": None,
                             "nkeys": len(items),
                             "keys": [{"key": k, "expected": a, "observed": b} for k, a, b in items[:limit]]})
        return viol


def event_group(ev):
    k = ev[0]
    if k == "read":
        return E.NAME_GROUP.get(ev[3], "eager")
    if k == "calc":
        return "calc:" + ev[2]
    if k == "init":
        return "init:" + ev[2]
    if k == "import":
        return "import"
    if k == "probe":
        return "probe:" + ev[3].split(":")[0]
    return k


def triple(v):
    return (v["oracle"], v["role"], v["group"], v["kind"])


def fired(run, trace):
    """Which fault kinds actually fired, from the real abstract states."""
    out = {}
    prev = {nid: ab for nid, ab in trace.get("init_abstract", {}).items()}
    seen_ev = set()
    for i, (nid, ev) in enumerate(run["events"]):
        ab = trace["abstract"][i]
        before = prev.get(nid)
        k = ekey([nid, ev])
        if k in seen_ev:
            out["retry"] = out.get("retry", 0) + 1
        seen_ev.add(k)
        if ev[0] == "init" and len(ev) > 3 and ev[3]:
            out["retry_reload"] = out.get("retry_reload", 0) + 1
        if before is not None and ab is not None:
            touched = pending_groups(before) - pending_groups(ab)
            if touched:
                if ev[0] == "probe" or (ev[0] == "read" and ev[4] != "attr"):
                    out["probe_first_touch"] = out.get("probe_first_touch", 0) + 1
                elif ev[0] == "init":
                    out["init_first_touch"] = out.get("init_first_touch", 0) + 1
                elif ev[0] == "import":
                    out["import_first_touch"] = out.get("import_first_touch", 0) + 1
                elif ev[0] == "calc":
                    out["calc_first_touch"] = out.get("calc_first_touch", 0) + 1
                elif ev[0] == "read":
                    route = "el" if not ev[2][1] and not ev[2][2] else "noncanonical_route"
                    out["read_first_touch_" + route] = out.get("read_first_touch_" + route, 0) + 1
        if isinstance(trace["outcomes"][i], list) and trace["outcomes"][i][:1] == ["E"]:
            out["op_raised"] = out.get("op_raised", 0) + 1
            if ev[0] == "calc" and ev[2] in ("nscat", "nsld", "xsld") and (ev[4] is None or (len(ev) > 5 and ev[5] == 0.0)):
                out["calc_failed_part_way"] = out.get("calc_failed_part_way", 0) + 1
        if ev[0] == "calc" and ev[2] == "new_isotope" and before is not None and len(pending_groups(before)) < len(E.LAZY_GROUPS):
            out["isotope_added_after_first_touch"] = out.get("isotope_added_after_first_touch", 0) + 1
        if ab is not None:
            prev[nid] = ab
    return out


def pending_groups(ab):
    """Groups whose Element/Isotope/Ion class attribute is still a delayed-load property."""
    pend = set()
    idx = 0
    for g, names in E.LAZY_GROUPS.items():
        for _ in names:
            if any(ab[c][idx] == "D" for c in ("Element", "Isotope", "Ion")):
                pend.add(g)
            idx += 1
    return pend


def abstract_key(ab):
    return (ab["Element"], ab["Isotope"], ab["Ion"],
            tuple((t, tuple(p)) for t, p in sorted(ab["props"].items())))
