"""./check probe-io: data-file faults and interrupts inside a loader (DESIGN 7.2).

NON-VERDICT: no listed property says what a read must do after a failed load, so
nothing here prints VIOLATION or changes an exit code.  The runs record what the
real code does when the fault is injected inside the first touch of a group, the
fault is then cleared, and the same operation is retried: did the public table
end up serving the canonical values ("recovered"), or is a group stuck for the
rest of the process?  The summary goes to evidence/probe-io.json and is quoted
under coverage.beyond_property of the C09 evidence.
"""
import json
import os
import time

from . import events as E
from . import proc, runner

TOUCH = {
    "activation": ["read", "public", [27, 59, 0], "neutron_activation", "attr"],
    "xray": ["calc", "public", "xsld", "Fe2O3", 5.24, 8.04],
    "f0": ["calc", "public", "f0", [26, 0, 0], [0.0, 1.0]],
    "f0_U": ["calc", "public", "f0", [92, 0, 0], [0.0, 1.0]],
    "neutron": ["read", "public", [26, 0, 0], "neutron", "attr"],
    "covalent_radius": ["read", "public", [26, 0, 0], "covalent_radius", "attr"],
    "crystal_structure": ["read", "public", [26, 0, 0], "crystal_structure", "attr"],
    "magnetic_ff": ["read", "public", [26, 0, 0], "magnetic_ff", "attr"],
    "emission": ["read", "public", [29, 0, 0], "K_alpha", "attr"],
}


def scenarios():
    out = []
    for k in (0, 1, 50, 300, 600):
        out.append(("read_eio", "activation.dat", k, "activation"))
    out.append(("open_emfile", "activation.dat", 0, "activation"))
    for k in (0, 10, 400, 1500):
        out.append(("read_eio", "f0_WaasKirf.dat", k, "f0"))
        out.append(("read_eio", "f0_WaasKirf.dat", k, "f0_U"))
    out.append(("open_emfile", "f0_WaasKirf.dat", 0, "f0"))
    out.append(("open_emfile", "fe.nff", 0, "xray"))
    out.append(("read_eio", "fe.nff", 0, "xray"))
    out.append(("exists_false", "fe.nff", 0, "xray"))
    for mod, touch in (("nsf.py", "neutron"), ("activation.py", "activation"), ("covalent_radius.py", "covalent_radius"),
                       ("crystal_structure.py", "crystal_structure"), ("magnetic_ff.py", "magnetic_ff"),
                       ("xsf.py", "emission"), ("cromermann.py", "f0")):
        for k in (1, 5, 40, 400, 4000):
            out.append(("interrupt", mod, k, touch))
    return out


def main(master, repo):
    t0 = time.time()
    proc.preload()
    W = runner.Worker(repo)
    results = []
    fired_by_kind = {}
    for kind, target, k, touch in scenarios():
        ev = TOUCH[touch]
        run = {"prop": "IO", "seed": master, "index": None, "cfg": None,
               "events": [[0, ["iofault", kind, target, k]], [0, ev], [0, ["iofault_clear"]], [0, ev], [0, ev]]}
        try:
            tr = W.execute(run, want_abstract=False)
        except proc.HarnessError as e:
            results.append({"fault": [kind, target, k], "touch": touch, "error": str(e)[:200]})
            continue
        during, cleared, retry1, retry2 = tr["outcomes"][1], tr["outcomes"][2], tr["outcomes"][3], tr["outcomes"][4]
        fired = cleared.get("fired", 0) if isinstance(cleared, dict) else 0
        expected = W.ref_outcome(ev)
        stuck = sorted(g for g, (h, _) in tr["digest"].items() if h != W.canon_hashes.get(g))
        res = {"fault": [kind, target, k], "touch": touch, "fired": fired,
               "during": short(during), "retry_equals_reference": retry1 == expected,
               "second_retry_equals_reference": retry2 == expected,
               "retry": short(retry1) if retry1 != expected else "as reference",
               "groups_not_canonical_at_end": stuck,
               "verdict": "no fault fired" if not fired else ("recovered" if not stuck and retry1 == expected else "stuck")}
        results.append(res)
        if fired:
            fired_by_kind[kind] = fired_by_kind.get(kind, 0) + 1
        print("%-12s %-20s k=%-5s touch=%-18s fired=%s during=%s -> %s %s" % (
            kind, target, k, touch, fired, short(during), res["verdict"], stuck or ""), flush=True)
    W.close()
    summary = {
        "note": "NON-VERDICT: outside every listed property's quantifier (DESIGN 7.2); never affects an exit code",
        "seed": master, "wall_s": round(time.time() - t0, 1), "scenarios": len(results),
        "faults_fired_by_kind": fired_by_kind,
        "recovered": sum(1 for r in results if r.get("verdict") == "recovered"),
        "stuck": sum(1 for r in results if r.get("verdict") == "stuck"),
        "no_fault_fired": sum(1 for r in results if r.get("verdict") == "no fault fired"),
        "results": results,
    }
    os.makedirs(os.path.join(proc.VERIF_DIR, "evidence"), exist_ok=True)
    with open(os.path.join(proc.VERIF_DIR, "evidence", "probe-io.json"), "w") as f:
        json.dump(summary, f, indent=1)
    print("probe-io (non-verdict): %d scenarios, %d recovered, %d stuck, %d without a fired fault" % (
        len(results), summary["recovered"], summary["stuck"], summary["no_fault_fired"]))
    return 0


def short(o):
    s = json.dumps(o)
    return s if len(s) < 80 else s[:77] + "..."
